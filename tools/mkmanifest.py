#!/usr/bin/env python3
"""Regenerates /verif/MANIFEST.json from the table below (kept in one place so the manifest stays valid)."""
import json, os, sys
ROOT = os.path.dirname(os.path.dirname(os.path.abspath(__file__)))

ENGINES = [
    {"name": "syntax", "path": "harness/syntax", "serves_properties": ["C06", "C07", "C08", "C11", "C15", "C16"],
     "kind_free_text": "in-process lexer/parser/formatter checks: bounded-exhaustive class-alphabet enumeration, rapid structured generators (abstract spokfile x layout, permissive grammar soup, prefixes, byte strings), native go fuzzing in the thorough tier"},
    {"name": "runinproc", "path": "harness/runinproc", "serves_properties": ["C01", "C02", "C03", "C05", "C14"],
     "kind_free_text": "file.New + SpokFile.Run with a recording shell.Runner against reference models (cache model, graph closure, glob matcher)"},
    {"name": "hashing", "path": "harness/hashing", "serves_properties": ["C04", "C18"],
     "kind_free_text": "hash.Concurrent under -race / GOMAXPROCS / taskset variation, child-process crash observation, fault injection by construction"},
    {"name": "cli", "path": "harness/cli", "serves_properties": ["C09", "C10", "C12", "C13", "C17", "C19", "C20", "C05", "C07", "C11", "C14", "C15"],
     "kind_free_text": "the built spok binary run as uid 65534 in a throw-away sandbox tree, with before/after snapshots; also supplies the binary legs (--fmt, --clean with glob outputs, --force with implicit task selection) of properties whose main engine is in-process; strace fault injection for system-call level crash points"},
]

# id -> (engine, category, technique, level text, level note, design ref)
CHECKS = {}

def add(id, engine, category, technique, text, note, ref):
    CHECKS[id] = dict(engine=engine, category=category, technique=technique, text=text, note=note, ref=ref)

add("C06", "syntax", "exploration", "property-based testing: generated abstract spokfile x generated layout, parse, compare with the generating structure (round trip from the model)",
    "Every generated structure, rendered in a random (quick) or exhaustively enumerated (thorough, small structures) admissible layout, parses back to exactly that structure; shrunk counter-example on failure. Sampling beyond the enumerated layouts. Identifiers draw letters by UTF-8 lead byte and by block over the whole Basic Multilingual Plane. Names that are reserved words of Go, the shell, JSON or spok's own flag set are names like any other (every identifier position, enumerated). Binary leg: generated files (also with lines around 64 KiB, bytes that are not UTF-8, odd project directory names) are given to the real CLI; what `spok --fmt` writes back must equal the rendering of the tree the parser builds from the same text in-process.",
    "Trusts the harness's renderer to emit only layouts the documentation admits (derived from the lexer's transitions and the user guide) and the projection ast->model.", "DESIGN.md §4 C06")
add("C07", "syntax", "exploration", "bounded-exhaustive enumeration + property-based testing + coverage-guided fuzzing with a round-trip / semantic-projection oracle",
    "All strings over the 25-symbol class alphabet up to length 5 (quick) / 6 (thorough) are enumerated completely; beyond that generated programs, permissive-grammar inputs and (thorough) native fuzzing. For each parsing input the formatted text must parse to the same semantic projection. Also: statements sharing a line, identifiers in every position x shape x about 900 letters of all scripts, stray non-UTF-8 bytes. Binary leg: generated spokfiles formatted in place by `spok --fmt` in the sandbox (from the project, from elsewhere with --spokfile, pointed at a file called Spokfile next to a different spokfile) and judged by the same projection; nothing but the target file may change; histories (format, format, append a variable and a task, format) and every line length around 64 KiB in tight and formatted spelling; a file that does not parse must be refused byte for byte; a spokfile that is a symbolic link; task names given along with --fmt (a task that replaces the spokfile: never the old definitions over the new file); files of 1 MiB +- 64 bytes, 2 MiB and 5 MiB; a read-only spokfile; a standard output nobody reads.",
    "Semantic projection (variables, values, tasks, dependencies, outputs, commands; commands up to trailing blanks) is the harness's reading of 'what a spokfile does'.", "DESIGN.md §4 C07")
add("C08", "syntax", "exploration", "bounded-exhaustive enumeration + property-based testing (prefix truncation, biased bytes) + fuzzing; crash/stall attribution through a shared-memory progress area",
    "Every class-alphabet string up to the bound, every byte prefix of generated programs, biased byte strings, permissive-grammar inputs with stray tokens, `%` strings, multi-line strings and lines of about 64 KiB: parsed twice in watchdogged worker processes; no crash, no stall, equal results, located error text.",
    "A stall is declared when the worker has used 30 s of CPU time on one case, or after 120 s of silence (normal latency ~10 us; wall-clock time alone is not trusted on a busy machine), and confirmed by a solo replay; error location format is read tolerantly ('(Line N)' and the message ending in '| <line N>').", "DESIGN.md §4 C08")
add("C11", "syntax", "exploration", "bounded-exhaustive enumeration + property-based testing with an idempotence oracle",
    "format(format(x)) == format(x) byte for byte on every parsing input of the C07 spaces.", "Inputs whose formatted text does not parse are C07's violation and are counted as blocked here.", "DESIGN.md §4 C11")
add("C15", "syntax", "exploration", "bounded-exhaustive enumeration + property-based testing with a comment/docstring projection oracle",
    "The sequence of non-empty comments, assignments and tasks-with-docstring is identical before and after formatting on every parsing input of the C07 spaces (generator weighted towards comments in every position). A second leg judges against the comments a generated file was *written* with (including bytes that are not UTF-8) rather than against what the parser made of the input. Binary leg: after `spok --fmt`, `spok --show` describes every task with the docstring the file gives it.",
    "Empty comments may vanish (the statement protects non-empty ones) as long as no neighbour changes role.", "DESIGN.md §4 C15")
add("C16", "syntax", "exploration", "bounded-exhaustive enumeration + property-based testing with a tiling invariant over the token stream",
    "Token values are input slices at their offsets, increasing and non-overlapping with whitespace-only gaps, exact line numbers, finite stream, EOF at len(input) — on every class-alphabet string up to the bound and on generated programs / soup.",
    "Stream is read up to its first EOF or ERROR token only.", "DESIGN.md §4 C16")

CACHE_NOTE = "The recording shell.Runner is the ground truth of execution; every run step is a fresh parse + file.New + SpokFile.Run (what a new process does); the reference model is a map task -> dependency snapshot at last observed success."
add("C01", "runinproc", "exploration", "stateful property-based testing against a reference model (history generation + shrinking) plus bounded-exhaustive action sequences",
    "Random histories (1-3 task programs mixing literal, glob and task dependencies; edits, reverts, deletes, multi-task / failing / forced runs, cache removal; dependencies that are symbolic links, dangling links among glob matches, directories reachable only through a link, project directories with glob / format meta characters in their names) and every action sequence up to length 4 (quick) / 6 (thorough) over three fixed two-task programs: no task is ever reported skipped unless its dependency snapshot equals the one of its last observed success. Plus scenario templates (establish / perturb / special run / restore / run twice; matched sets that empty, shrink, grow or are swapped after forced and unforced successes) the same histories pinned to two CPUs and to one (taskset), started from varying working directories, with leftovers of other processes in the cache directory, two names exchanging what they refer to (two regular files; two linked dependencies, which thereby exchange targets), a file named like a task, bracket names beside look-alikes, the project reached through a link to its directory, the first task started as the user's clean task; and a binary leg (incremental runs through the CLI, also with a linked spokfile, from elsewhere with --spokfile, and with edits of same-named files outside the project).",
    CACHE_NOTE, "DESIGN.md §4 C01")
add("C02", "runinproc", "exploration", "stateful property-based testing against a reference model (converse predicate of C01) plus bounded-exhaustive action sequences",
    "Same histories: an executed task in an unforced run never has inputs equal to its last success (unless tainted by a later failure or cache removal); tasks without file dependencies are never skipped.",
    CACHE_NOTE + " After a failed run of a task both outcomes are accepted (don't-care).", "DESIGN.md §4 C02")
add("C14", "runinproc", "exploration", "stateful property-based testing against a reference model with forced runs in every position",
    "Same histories with --force drawn with probability 1/2: forced runs report and execute every requested task, never skip; later unforced skips of tasks whose last success was forced satisfy the C01 condition. Binary leg: after a priming run, `spok --force <name>`, `spok --force` (default task) and `spok --clean --force` (user clean task) re-execute every task of the closure; in.txt is optionally edited before and put back after the forced run, the cache optionally read-only while it lasts, and a final unforced run may only skip a task on the inputs it last completed on.",
    CACHE_NOTE + " Completeness of the transitive closure is C03's business and not re-judged here.", "DESIGN.md §4 C14")
add("C03", "runinproc", "exploration", "bounded-exhaustive enumeration of dependency graphs x requests plus property-based sampling, validity-predicate oracle from reachability + DFS",
    "Every edge set (incl. self-loops) on up to 3 (quick) / 4 (thorough) tasks x every request subset and extra orderings, repeated so that map iteration inside the sort varies; sampled graphs on 4-8 tasks with duplicates, undefined names, failing commands, file dependencies. Binary leg: graphs run through the CLI with the first task selected by name, as default task or as clean task, or with several names (repeats, an undefined name at any position) on the command line; graphs of 21-36 tasks whose names sort against the run order, one loaded SpokFile run repeatedly; tasks may have glob dependencies and write files their dependents depend on, and the judged run may come after a history of runs and file changes; a bystander task with a recursive glob next to a link to itself, a link to nowhere and a named pipe; every spelling of a requested name that names no task (empty, blank, other letter case, prefix, trailing blank, ...) at every position.",
    "Reference: reachability and DFS cycle test over the declared edges. Cycles unreachable from the request are a don't-care (error or normal run).", "DESIGN.md §4 C03")
add("C05", "runinproc", "exploration", "bounded-exhaustive enumeration of directory trees x patterns against a reference matcher over a full walk (differential), plus property-based random trees",
    "Every subset of a 10 (quick) / 12 (thorough) path pool x 22 patterns, expanded through parse -> file.New -> Run -> SpokFile.Globs twice (pattern tasks requested directly and reached through two levels of task dependencies); compared as sets of regular files with an independent matcher. Trees with symbolic links to files and to directories (every subset of five link positions x three base trees, and random ones); a third leg edits one matched file and requires exactly the tasks whose pattern denotes it to run again; a fourth adds and removes a file deep in the tree between invocations. Binary legs: `spok --clean` with glob-only outputs removes exactly the denoted files; incremental runs through the CLI (linked spokfile whose target lives elsewhere, --spokfile from another directory, same-named files edited outside the project).",
    "The reference matcher is cross-checked against doublestar.Match on the pattern set. Links always lead to existing files / directories outside the tree (no cycles); a link to a directory counts as a directory, as for any path-based reader.", "DESIGN.md §4 C05")

add("C04", "hashing", "exploration", "property-based testing with metamorphic relations (permutation, directory interleaving, GOMAXPROCS, CPU affinity) and a run-wide injectivity book, also under the race detector",
    "Generated file sets over an adversarial 48-name universe with edit scripts: every reordering / interleaving / GOMAXPROCS / repetition agrees, and digest <-> canonical set of (abs path, content) stays a bijection over the whole run; child processes pinned to 1, 2, 4, 16 CPUs agree; names that are not valid UTF-8 (Latin-1, lone 0xFF / 0xFE) and the NFC / NFD spellings of one visible name are names like any other. Binary leg: the digest spok records in .spok/cache.json from a fresh cache is the same under six ways of pointing spok at the project (cwd, nested cwd, relative / absolute --spokfile from the project, its parent, a sibling directory), changes when a dependency is edited, not when another file is, and returns when the edit is undone; also with the spokfile reached through a symbolic link from the project into a directory that holds files of the same names.",
    "No digest format is assumed (relational oracles only). Worker interleavings are sampled, not enumerated. Lists with duplicate entries are only checked for determinism (don't-care otherwise).", "DESIGN.md §4 C04")
add("C18", "hashing", "fault_enumeration", "fault injection by construction (missing, dangling, unreadable, vanishing, shrinking entries at every position) + property-based list generation, race detector, goroutine accounting, crash/stall attribution to the list in flight",
    "Every position of every faulty kind in every list of size <= 6 for GOMAXPROCS in {1,2,4,16}, repeated, also under -race; generated lists of size 0..4*NumCPU and 10^4 with duplicates: Hash returns (digest, nil) or (\"\", err), errors exactly when an entry cannot be opened, no crash, stall, race or leaked goroutine; the position enumeration is repeated pinned to one and to two CPUs (taskset); four concurrent calls on one shared, unsorted list must agree with a single call (a race-detector report counts as a violation). Binary leg: a task with dependencies of every kind (also /dev/null and a linked directory) through the CLI: a message and a non-zero exit, never a crash — also with standard output and error as regular files, when the dependencies were readable for two earlier runs, or when an earlier task of the same run moves one away.",
    "A crash or stall (60 s of CPU time on one list, or 240 s of silence) of the shard process is attributed to the list published in the shared-memory progress area and confirmed by a solo replay. Vanishing files and files cut to nothing in place while being read may yield either outcome.", "DESIGN.md §4 C18")

SB_NOTE = "The built binary runs as uid 65534 inside a throw-away sandbox tree (needs root to chown/setuid; otherwise it runs as the invoking user). "
add("C17", "cli", "exploration", "bounded-exhaustive enumeration of directory chains x start x stop against a reference walk (differential), stall detection by watchdog, plus a shard run as an unprivileged user over directory modes",
    "Every chain of depth <= 3 (quick) / 4 (thorough) with 8 per-level configurations and two child-name orders x every start x every stop incl. an unrelated directory: file.Find terminates and returns the nearest regular spokfile not above stop, else an error. Long chains (16-100 levels), case variants, left-over cache directories; relative start directories (termination only); as uid 65534: chains of three directories x spokfile or not x mode 0755/0311/0 x start x stop, judged against the tree as built; `spok --show` from nested directories (also through symbolic links, with a stale $PWD), after which `--vars`, `--clean` and `-c` from the same directory must work on the same spokfile; directories on the way called `project [wip]`, `notes{a,b}`, `[ab]`, `a*b`, `q?z`, `100%d`, each with a look-alike sibling holding a spokfile.",
    "Find is called in-process in watchdogged shards (stall = 30 s of CPU time on one case or 120 s of silence, confirmed by a solo replay). When start is not at/below stop either a not-found error or the nearest spokfile on start's own chain is accepted. Symlinks and path spelling variants are not generated.", "DESIGN.md §4 C17")
add("C13", "cli", "exploration", "property-based testing of the binary with a textual-substitution oracle and environment collisions by construction",
    "Generated variable sets (string / exec / join) with names colliding with ambient environment and .env, printed through {{.NAME}} and $NAME under --json, from the project root, nested directories, and started elsewhere with relative / absolute --spokfile; odd project directory names; the probing task optionally behind a task that is reported skipped, optionally with a command holding braces the template syntax rejects (refused, or substituted); an in-process leg loads 120 spokfiles in one process from three working directories with one that does not load in between; also --vars and failing exec; --debug / --force on the judged run, values up to 200 characters; standard output and error as regular files.",
    SB_NOTE + "Values avoid both quote characters so that the probing commands stay valid shell; references to later-defined variables are out of scope.", "DESIGN.md §4 C13")
add("C12", "cli", "exploration", "property-based testing of the binary with a whole-sandbox before/after snapshot (frame condition + protected set + completeness)",
    "Random project trees x spokfiles declaring literal, named and glob outputs incl. ones that evaluate to '', '.', '..'; `spok --clean` must remove exactly the designated paths and .spok, never the spokfile, its directory or anything above; with a clean task only that task runs. Tasks may also read (file / glob dependencies) what other tasks declare as outputs; one of the patterns may be one the glob syntax rejects (refusing is accepted); standard output may be /dev/full (what is removed does not depend on being able to report it). Names of defined tasks may be given along with --clean (before or after it). Standard output and error may be regular files. Project directory names with meta characters and generated invocation styles (--spokfile ./spokfile, from the parent, from a sibling directory, relative and absolute).",
    SB_NOTE + "When an output designates the project or above, aborting or skipping it are both accepted; outputs beside (not above) the project are not generated.", "DESIGN.md §4 C12")

add("C09", "cli", "exploration", "property-based testing of the binary with a side-effect log as ground truth, followed by a second run (history of length two)",
    "Generated spokfiles with failing commands at any position (statuses 1..255) under each of {plain, --quiet, --json, --force and combinations}: the invocation exits non-zero and names a failing task; the next unforced run never reports a failed task skipped, never succeeds, and re-executes a sole failing task. Variants: a primed (populated) cache, tasks started through the default / clean task, failures of external programs and by signal, a cache that is read-only during the failing run, a dependency that vanishes before it, tasks added to the spokfile after the cache was created, task names that differ by case only, command lines that are not valid shell behind a failing one, standard output and error as regular files (`spok build >out.log 2>err.log`).",
    SB_NOTE + "Whether later commands/tasks still run after a failure is a don't-care; which of several failing tasks is named is free.", "DESIGN.md §4 C09")
add("C10", "cli", "fault_enumeration", "fault injection by construction: SIGKILL from inside every task position, at every file-system system call (strace inject), every byte prefix of the cache file, inside model-based histories checked against a reference cache model",
    "Histories over the C01 universe with kill -9 of spok (a) from inside any task of the run order, (b) on entering its N-th openat/write/rename/close/fsync/mkdir/unlink system call for every N (strace fault injection: every crash point between two file-system operations), and (c) truncation of cache.json to prefixes (all byte lengths for two fixed programs in the thorough tier, every 7th in quick), each followed by continuations of edits/reverts and an unforced run: no wrongly skipped task ever, and after a fault either normal behaviour or an explicit error that mentions the cache (never a Go panic). The killed / failing run is also started from another directory (which has a spokfile and cache of its own) with --spokfile, and with the cache file or cache directory read-only for its duration; any run of a history may ask for --json / --quiet / -j, and every cut of the cache file is also followed by such a run.",
    SB_NOTE + "Process death only (no power loss / reordering of unsynced writes). Crash points are system-call entries, task positions and cache-file prefixes, not every machine instruction. Needs strace for (b); without it that leg is skipped and noted in the evidence.", "DESIGN.md §4 C10 and §10")
add("C19", "cli", "exploration", "property-based testing of the binary with a whole-HOME before/after snapshot against the write-set each action permits",
    "Random trees x valid/invalid/absent spokfiles x every flag subset of {--show,--vars,--fmt,--init,--force,--quiet,--json,--debug} and task names, from root and nested cwd: every created/modified/removed path lies in the permitted set, --fmt output equals the in-process formatter, --init never overwrites and only appends to .gitignore. Also: spokfile as a symbolic link into another directory, --spokfile from elsewhere, --spokfile naming a file called Spokfile (must be refused without writing), editor-style bystander files, earlier invocations of the same kind with an edit of a matched dependency in between (declared outputs present throughout), `--init` combined with `--spokfile`, read-only .gitignore files, odd project directory names, `--init` in a directory that cannot be listed; commands with bash-only tests (`[[ a > b ]]`, `$(( 4 > 3 ))`); tasks called like flags and actions (`init`, `fmt`, `clean`, `show`, ...) asked for by name from the project and from below it.",
    SB_NOTE + "Task commands are restricted to side-effect-free ones so that every change is spok's own.", "DESIGN.md §4 C19")
add("C20", "cli", "exploration", "property-based testing of the binary: reports compared with a side-effect log and a skip model over action sequences",
    "Generated spokfiles and action sequences: --json is exactly one document with the run's tasks in execution order, skipped flags, interpolated command text, exact stdout/stderr/status; --quiet prints nothing; --show / --vars list every task / variable once, sorted, with docstring / value; no arguments runs default or lists. With and without a .env file, started in the project, in a sub-directory (also one holding a directory called spokfile), or elsewhere with --spokfile; variables that are also named outputs; names exactly one or two tab stops long; a reported run with a read-only cache; two join() calls whose argument lists print alike; values that mean something to HTML, URLs or the shell (`fish & chips`, `<in >out`, `1.2+dev`, `$HOME`); standard output and error as regular files.",
    SB_NOTE + "--quiet together with --json/--show is a don't-care; ANSI styling is stripped; table cells are compared after whitespace normalisation.", "DESIGN.md §4 C20")

NOT_YET = {}

def main():
    props = [json.loads(l) for l in open(os.path.join(ROOT, "properties.jsonl"))]
    ids = [p["id"] for p in props]
    checks = []
    na = []
    for i in ids:
        if i in CHECKS:
            c = CHECKS[i]
            checks.append({
                "property_id": i,
                "quick_cmd": "./check %s quick" % i,
                "thorough_cmd": "./check %s thorough" % i,
                "evidence_file": "/verif/evidence/%s.json" % i,
                "replay_cmd_template": "./check %s --replay {path}" % i,
                "engine": c["engine"],
                "level_claimed": {"category": c["category"], "text": c["text"], "design_ref": c["ref"]},
                "level_note": c["note"],
                "technique": c["technique"],
            })
        else:
            na.append({"property_id": i, "reason": NOT_YET.get(i, "check not built yet in this round of construction (planned: see DESIGN.md §4); not claimed until it runs")})
    hooks_commits = []
    hc = os.path.join(ROOT, "hooks_commits.txt")
    if os.path.exists(hc):
        hooks_commits = [l.strip() for l in open(hc) if l.strip()]
    m = {
        "version": 1,
        "setup_cmd": "./setup.sh",
        "hooks": {
            "guard": "verif",
            "enable": "go build/test -tags verif (the driver passes -tags verif to every build of /repo and of the harness)",
            "baseline_off_cmd": "cd /repo && GOFLAGS=-mod=readonly GOPROXY=off GOSUMDB=off GOTOOLCHAIN=local go test -vet=off -count=1 ./...",
            "source_commits": hooks_commits,
            "add_only": True,
        },
        "engines": ENGINES,
        "checks": checks,
        "not_applicable": na,
        "notes": "Every check is ./check <id> quick|thorough; exit 0 held, 1 VIOLATION line, 2 inconclusive. Evidence is written by the driver (harness/cmd/vcheck) from the shards' own counters. known_findings.json lists fixed and known findings.",
    }
    json.dump(m, open(os.path.join(ROOT, "MANIFEST.json"), "w"), indent=1)
    print("MANIFEST.json: %d checks, %d not_applicable" % (len(checks), len(na)))

if __name__ == "__main__":
    main()
