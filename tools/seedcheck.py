#!/usr/bin/env python3
"""Confirms a seeded change and runs the checks against it.

  tools/seedcheck.py <ID> <variant> --demo <relpath in repo>=<file in seed dir> ... --run "<command run in the worktree>" [--checks C01,C02] [--tier quick]

1. scratch worktree of /repo HEAD: demo passes without the change;
2. with the change: builds, the 290 baseline tests pass, demo fails;
3. applies the change to /repo, runs the checks, undoes it;
4. writes /verif/seeded/<ID>-<variant>/{patch.diff, demo files, notes.md, meta.json}.
"""
import argparse, json, os, shutil, subprocess, sys, time
ap = argparse.ArgumentParser()
ap.add_argument("id"); ap.add_argument("variant")
ap.add_argument("--src", default=None)
ap.add_argument("--demo", action="append", default=[])
ap.add_argument("--run", default=None)
ap.add_argument("--auto-sh", default=None, help="shell demo placed as zz_demo.sh: tried with the built binary as argument, then with the worktree")
ap.add_argument("--checks", default=None)
ap.add_argument("--tier", default="quick")
ap.add_argument("--needs", default="")
a = ap.parse_args()
src = a.src or "/tmp/seeded/%s/%s" % (a.id, a.variant)
env = dict(os.environ, GOFLAGS="-mod=readonly", GOPROXY="off", GOSUMDB="off", GOTOOLCHAIN="local")
wt = "/tmp/sw-%s-%s" % (a.id, a.variant)
def sh(cmd, cwd=None, check=False):
    p = subprocess.run(cmd, shell=True, cwd=cwd, env=env, capture_output=True, text=True)
    return p.returncode, (p.stdout + p.stderr)
subprocess.run("git -C /repo worktree remove --force %s 2>/dev/null; rm -rf %s" % (wt, wt), shell=True)
rc, out = sh("git -C /repo worktree add -q --detach %s HEAD" % wt)
assert rc == 0, out
meta = {"property": a.id, "variant": a.variant, "needs_to_manifest": a.needs, "ran": []}
ok = True
try:
    for d in a.demo:
        rel, f = d.split("=")
        os.makedirs(os.path.dirname(os.path.join(wt, rel)), exist_ok=True)
        shutil.copy(os.path.join(src, f), os.path.join(wt, rel))
    if a.auto_sh:
        a.demo = a.demo or []
        shutil.copy(os.path.join(src, a.auto_sh), os.path.join(wt, "zz_demo.sh"))
        a.demo.append("zz_demo.sh=" + a.auto_sh)
        for form in ("go build -o spok-bin ./cmd/spok && bash zz_demo.sh $PWD/spok-bin", "bash zz_demo.sh $PWD"):
            rc, out = sh(form, cwd=wt)
            if rc == 0:
                a.run = form
                break
        else:
            a.run = "go build -o spok-bin ./cmd/spok && bash zz_demo.sh $PWD/spok-bin"
    rc, out = sh(a.run, cwd=wt)
    meta["ran"].append({"what": "demonstration on the unchanged tree", "cmd": a.run, "exit": rc})
    print("demo without change: exit", rc)
    if rc != 0:
        ok = False; print(out[-1500:])
    rc, out = sh("git apply %s/patch.diff" % src, cwd=wt)
    if rc != 0:
        print("PATCH DOES NOT APPLY on current HEAD:", out); ok = False
    else:
        rc, out = sh("go build ./... ", cwd=wt)
        print("build with change: exit", rc)
        if rc != 0: ok = False; print(out[-800:])
        # baseline without the demo files
        for d in a.demo:
            os.rename(os.path.join(wt, d.split("=")[0]), os.path.join(wt, d.split("=")[0]) + ".off")
        rc, out = sh("python3 /verif/tools/baseline.py %s" % wt)
        print("baseline with change:", out.strip().splitlines()[0] if out.strip() else rc)
        meta["ran"].append({"what": "repository test suite with the change", "cmd": "tools/baseline.py", "exit": rc, "summary": out.strip().splitlines()[0] if out.strip() else ""})
        if rc != 0: ok = False; print(out[-800:])
        for d in a.demo:
            os.rename(os.path.join(wt, d.split("=")[0]) + ".off", os.path.join(wt, d.split("=")[0]))
        rc, out = sh(a.run, cwd=wt)
        print("demo with change: exit", rc)
        meta["ran"].append({"what": "demonstration with the change", "cmd": a.run, "exit": rc, "tail": out[-600:]})
        if rc == 0: ok = False; print("DEMO DOES NOT FAIL WITH THE CHANGE")
    # run the checks against the scratch worktree (with the change applied), never against /repo
    results = {}
    if ok:
        for d in a.demo:
            try:
                os.remove(os.path.join(wt, d.split("=")[0]))
            except OSError:
                pass
        sh("rm -f spok-bin", cwd=wt)
        cenv = dict(os.environ, VERIF_REPO=wt, VERIF_EVIDENCE="/tmp/seed-evidence", VERIF_REPLAYS="/tmp/seed-replays")
        for c in (a.checks or a.id).split(","):
            t0 = time.time()
            p = subprocess.run([os.environ.get("SWEEP_CHECK", "/verif/check"), c, a.tier], capture_output=True, text=True, env=cenv)
            sigs = [l[4:].strip() for l in p.stdout.splitlines() if l.startswith("--- ")]
            results[c] = {"exit": p.returncode, "signatures": sigs[:6], "wall_s": round(time.time() - t0, 1)}
            print("check", c, a.tier, "-> exit", p.returncode, sigs[:4])
finally:
    subprocess.run("git -C /repo worktree remove --force %s; rm -rf %s %s/.build/*-_tmp_sw-*" % (wt, wt, os.path.dirname(os.environ.get("SWEEP_CHECK", "/verif/check"))), shell=True)
meta["confirmed"] = ok
if not ok:
    print("NOT CONFIRMED"); sys.exit(1)
meta["checks_" + a.tier] = results
meta["caught_by"] = [c for c, r in results.items() if r["exit"] == 1]
dst = "/verif/seeded/%s-%s" % (a.id, a.variant)
os.makedirs(dst, exist_ok=True)
for f in os.listdir(src):
    if os.path.isfile(os.path.join(src, f)):
        shutil.copy(os.path.join(src, f), dst)
meta["demo_placement"] = a.demo
meta["demo_cmd"] = a.run
json.dump(meta, open(os.path.join(dst, "meta.json"), "w"), indent=1)
print("saved", dst, "caught_by", meta["caught_by"])
