#!/usr/bin/env python3
"""Runs the repository's own suite (guard off) and compares with /root/.vp/BASELINE.json stable_pass."""
import json, subprocess, os, sys
env = dict(os.environ, GOFLAGS="-mod=readonly", GOPROXY="off", GOSUMDB="off", GOTOOLCHAIN="local")
repo = sys.argv[1] if len(sys.argv) > 1 else "/repo"
p = subprocess.run(["go", "test", "-json", "-vet=off", "-count=1", "./..."], cwd=repo, env=env, capture_output=True, text=True)
passed, failed = set(), set()
for line in p.stdout.splitlines():
    try:
        e = json.loads(line)
    except Exception:
        continue
    if "Test" in e:
        name = e["Package"] + "::" + e["Test"]
        if e["Action"] == "pass":
            passed.add(name)
        elif e["Action"] == "fail":
            failed.add(name)
base = set(json.load(open("/root/.vp/BASELINE.json"))["stable_pass"])
missing = sorted(base - passed)
print("passed %d, failed %d, baseline %d, baseline tests not passing: %d" % (len(passed), len(failed), len(base), len(missing)))
for m in missing[:20]:
    print("  MISSING", m)
for f in sorted(failed)[:20]:
    print("  FAILED", f)
sys.exit(1 if missing or failed else 0)
