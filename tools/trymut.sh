#!/bin/sh
# usage: tools/trymut.sh <patchfile> <id> [<id>...]   — applies a patch to /repo, checks the baseline suite, runs the quick checks, reverts
P="$1"; shift
git -C /repo apply "$P" || { echo "patch does not apply"; exit 3; }
( cd /repo && GOFLAGS=-mod=readonly GOPROXY=off go build ./... ) || { echo "MUTANT DOES NOT BUILD"; git -C /repo checkout -- .; exit 3; }
python3 /verif/tools/baseline.py | head -3
for id in "$@"; do
  out=$(/verif/check $id quick 2>&1); rc=$?
  echo "== $id exit=$rc"; echo "$out" | grep -a "^VIOLATION\|^INCONCLUSIVE\|^--- " | head -5
done
git -C /repo checkout -- .
git -C /repo status --short
