#!/usr/bin/env python3
"""Rewrites the seeded-change table in DESIGN.md (between the SEEDTABLE markers) from seeded/*/meta.json and seeded/SWEEP_quick.json."""
import json, os, re
root = "/verif/seeded"
sweep = {}
sp = os.path.join(root, "SWEEP_quick.json")
if os.path.exists(sp):
    sweep = json.load(open(sp))
rows = []
for d in sorted(os.listdir(root)):
    mp = os.path.join(root, d, "meta.json")
    if not os.path.exists(mp):
        continue
    m = json.load(open(mp))
    notes = [l for l in open(os.path.join(root, d, "notes.md")).read().splitlines() if l.strip()]
    title = notes[0].lstrip("# ").strip() if notes else ""
    title = re.sub(r"^C\d\d\s*[/,—-]*\s*variant\s+[ab]\s*[—:\-–]*\s*", "", title, flags=re.I)
    first = ", ".join(m.get("caught_by", [])) or "missed"
    sw = sweep.get(d, {})
    now = "caught" if sw.get("exit") == 1 else ("?" if not sw else "NOT caught (exit %s)" % sw.get("exit"))
    sigs = [x.split(": ", 1)[-1] for x in sw.get("signatures", []) if "regression" not in x and "FAIL" not in x]
    rnd = {"a": "1", "b": "1", "c": "2", "d": "2", "e": "3", "f": "3", "g": "4", "h": "4", "i": "5", "j": "5", "k": "6", "l": "6", "m": "7", "n": "7", "o": "8", "p": "8", "q": "9", "r": "9", "s": "10", "t": "10", "u": "11"}.get(d[-1], "?")
    rows.append("| %s | %s | %s | %s | %s | %s |" % (d, rnd, title[:100].replace("|", "/"), first, now, ", ".join(dict.fromkeys(sigs))[:48]))
table = "| seeded change | round | what it is (first line of its notes) | first evaluation: caught by | current quick check of its property | signature |\n|---|---|---|---|---|---|\n" + "\n".join(rows)
p = "/verif/DESIGN.md"
s = open(p).read()
b, e = "<!-- SEEDTABLE:BEGIN -->", "<!-- SEEDTABLE:END -->"
if b in s:
    s = s[: s.index(b) + len(b)] + "\n" + table + "\n" + s[s.index(e):]
    open(p, "w").write(s)
    print("table rewritten: %d rows" % len(rows))
else:
    print("markers not found")
