#!/usr/bin/env python3
"""Runs every seeded change in /verif/seeded/ against the check of its property (and any --also checks).
   usage: tools/seedsweep.py [quick|thorough] [ID-variant ...]      writes /verif/seeded/SWEEP_<tier>.json"""
import json, os, subprocess, sys, time
tier = sys.argv[1] if len(sys.argv) > 1 and sys.argv[1] in ("quick", "thorough") else "quick"
only = [a for a in sys.argv[1:] if a not in ("quick", "thorough")]
root = "/verif/seeded"
out = {}
import concurrent.futures
par = int(os.environ.get("SWEEP_PAR", "2"))
def one(d):
    p = os.path.join(root, d, "patch.diff")
    pid = d.split("-")[0]
    wt = "/tmp/sweepwt-" + d
    subprocess.run("git -C /repo worktree remove --force %s 2>/dev/null; rm -rf %s" % (wt, wt), shell=True)
    r = subprocess.run("git -C /repo worktree add -q --detach %s HEAD && git -C %s apply %s" % (wt, wt, p), shell=True, capture_output=True, text=True)
    try:
        if r.returncode != 0:
            return d, {"error": "patch does not apply: " + r.stderr[-200:]}
        t0 = time.time()
        env = dict(os.environ, VERIF_REPO=wt, VERIF_EVIDENCE="/tmp/seed-evidence", VERIF_REPLAYS="/tmp/seed-replays/" + d)
        c = subprocess.run([os.environ.get("SWEEP_CHECK", "/verif/check"), pid, tier], capture_output=True, text=True, env=env)
        sigs = [l[4:].strip()[:80] for l in c.stdout.splitlines() if l.startswith("--- ")]
        res = {"check": pid, "exit": c.returncode, "signatures": sigs[:5], "wall_s": round(time.time() - t0, 1)}
        # a change that is a violation of a neighbouring property as well may name that check in meta.json ("also")
        try:
            also = json.load(open(os.path.join(root, d, "meta.json"))).get("also", [])
        except Exception:
            also = []
        if c.returncode != 1:
            for other in also:
                c2 = subprocess.run([os.environ.get("SWEEP_CHECK", "/verif/check"), other, tier], capture_output=True, text=True, env=env)
                if c2.returncode == 1:
                    s2 = [l[4:].strip()[:80] for l in c2.stdout.splitlines() if l.startswith("--- ")]
                    res.update({"exit": 1, "caught_by_other_check": other, "signatures": s2[:5]})
                    break
        return d, res
    finally:
        subprocess.run("git -C /repo worktree remove --force %s; rm -rf %s %s/.build/*-_tmp_sweepwt-%s" % (wt, wt, os.path.dirname(os.environ.get("SWEEP_CHECK", "/verif/check")), d), shell=True)
todo = [d for d in sorted(os.listdir(root)) if os.path.exists(os.path.join(root, d, "patch.diff")) and (not only or d in only)]
prev = {}
sp = os.path.join(root, "SWEEP_%s%s.json" % (tier, os.environ.get("SWEEP_TAG", "")))
if only and os.path.exists(sp):
    prev = json.load(open(sp))
with concurrent.futures.ThreadPoolExecutor(max_workers=par) as ex:
    for d, res in ex.map(one, todo):
        out[d] = res
        print(d, res.get("exit", res.get("error")), res.get("signatures", [])[:3], res.get("wall_s"))
prev.update(out)
out = prev
json.dump(out, open(sp, "w"), indent=1)
missed = [d for d, r in out.items() if r.get("exit") != 1]
print("caught %d of %d; not caught: %s" % (len(out) - len(missed), len(out), missed))
