#!/usr/bin/env python3
"""Runs every seeded change in /verif/seeded/ against the check of its property (and any --also checks).
   usage: tools/seedsweep.py [quick|thorough] [ID-variant ...]      writes /verif/seeded/SWEEP_<tier>.json"""
import json, os, subprocess, sys, time
tier = sys.argv[1] if len(sys.argv) > 1 and sys.argv[1] in ("quick", "thorough") else "quick"
only = [a for a in sys.argv[1:] if a not in ("quick", "thorough")]
root = "/verif/seeded"
out = {}
assert subprocess.run("git -C /repo status --porcelain", shell=True, capture_output=True, text=True).stdout.strip() == "", "/repo not clean"
for d in sorted(os.listdir(root)):
    p = os.path.join(root, d, "patch.diff")
    if not os.path.exists(p) or (only and d not in only):
        continue
    pid = d.split("-")[0]
    r = subprocess.run(["git", "-C", "/repo", "apply", p], capture_output=True, text=True)
    if r.returncode != 0:
        out[d] = {"error": "patch does not apply"}
        print(d, "PATCH DOES NOT APPLY"); continue
    try:
        t0 = time.time()
        c = subprocess.run(["/verif/check", pid, tier], capture_output=True, text=True)
        sigs = [l[4:].strip()[:80] for l in c.stdout.splitlines() if l.startswith("--- ")]
        out[d] = {"check": pid, "exit": c.returncode, "signatures": sigs[:5], "wall_s": round(time.time() - t0, 1)}
        print(d, "exit", c.returncode, sigs[:3], out[d]["wall_s"], "s")
    finally:
        subprocess.run("git -C /repo checkout -- . && git -C /repo clean -fdq", shell=True)
json.dump(out, open(os.path.join(root, "SWEEP_%s.json" % tier), "w"), indent=1)
missed = [d for d, r in out.items() if r.get("exit") != 1]
print("caught %d of %d; not caught: %s" % (len(out) - len(missed), len(out), missed))
subprocess.run("rm -rf /verif/replays", shell=True)
