#!/bin/sh
# usage: tools/tryseed.sh <seeded name, e.g. C01-g | path to a patch> [tier] [check ids...]
# Runs checks against a scratch worktree of /repo with the change applied (never touches /repo's files).
S="$1"; T="${2:-quick}"; [ $# -ge 2 ] && shift 2 || shift
P="$S"; [ -f "$P" ] || P="/verif/seeded/$S/patch.diff"
N=$(basename "$(dirname "$P")")-$$
W=/tmp/try-$N
IDS="$*"; [ -n "$IDS" ] || IDS=$(echo "$S" | sed 's/-.*//')
git -C /repo worktree add -q --detach "$W" HEAD || exit 3
git -C "$W" apply "$P" || { echo "patch does not apply"; git -C /repo worktree remove --force "$W"; exit 3; }
for id in $IDS; do
  out=$(VERIF_REPO="$W" VERIF_EVIDENCE=/tmp/seed-evidence VERIF_REPLAYS=/tmp/seed-replays/try "$(dirname "$0")/../check" $id $T 2>&1); rc=$?
  echo "== $id $T exit=$rc"; echo "$out" | grep -a -A3 "^--- " | cut -c1-600 | head -24; echo "$out" | grep -a "^VIOLATION\|^INCONCLUSIVE\|cases," | head -5
done
git -C /repo worktree remove --force "$W"; rm -rf /verif/.build/*-_tmp_try-$N
