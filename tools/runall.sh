#!/bin/sh
# usage: tools/runall.sh quick|thorough [ids...]  — runs the checks sequentially on the current tree, validates the evidence
TIER=${1:-quick}; shift
IDS="$@"; [ -z "$IDS" ] && IDS="C01 C02 C03 C04 C05 C06 C07 C08 C09 C10 C11 C12 C13 C14 C15 C16 C17 C18 C19 C20"
# the thorough tier keeps its evidence beside the quick tier's (evidence-thorough/), so that a long run does not
# replace the per-change evidence; `./check <id> thorough` on its own writes evidence/<id>.json as usual
if [ "$TIER" = thorough ] && [ -z "${VERIF_EVIDENCE:-}" ]; then VERIF_EVIDENCE=/verif/evidence-thorough; export VERIF_EVIDENCE; mkdir -p $VERIF_EVIDENCE; fi
EVDIR=${VERIF_EVIDENCE:-/verif/evidence}
for id in $IDS; do
  s=$(date +%s); out=$(/verif/check $id $TIER 2>&1); rc=$?; e=$(date +%s)
  echo "$id rc=$rc $((e-s))s :: $(echo "$out" | tail -1)"
  [ $rc -ne 0 ] && echo "$out" | grep -a "VIOLATION\|INCONCLUSIVE\|^--- " | head -5
done
EVDIR=$EVDIR python3-vt - <<'PY'
import json,jsonschema,glob,os
s=json.load(open('/root/.vp/EVIDENCE.schema.json'))
for f in sorted(glob.glob(os.environ.get('EVDIR','/verif/evidence')+'/*.json')):
    try:
        jsonschema.validate(json.load(open(f)),s)
    except Exception as e:
        print("INVALID", f, str(e)[:200])
print("evidence validated")
PY
