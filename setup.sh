#!/bin/sh
# Offline setup: compile the driver and every engine once so that the build cache is warm.
set -e
ROOT="$(cd "$(dirname "$0")" && pwd)"
export GOPROXY=off GOSUMDB=off GOTOOLCHAIN=local GOFLAGS=-mod=mod
cd "$ROOT/harness"
mkdir -p "$ROOT/.build"
go build -o "$ROOT/.build/vcheck.setup" ./cmd/vcheck
rm -f "$ROOT/.build/vcheck.setup"
go vet ./... >/dev/null 2>&1 || true
go test -tags verif -count=1 -run '^$' ./... >/dev/null
echo "setup ok"
