// Package ev is the shard-side evidence collector shared by every engine.
//
// A check run consists of one or more shard processes (instances of an engine's test
// binary started by cmd/vcheck). Each shard opens a Shard, counts what it executes,
// records violations as replayable JSON cases and flushes a partial evidence file into
// $VERIF_OUT, which the driver merges into /verif/evidence/<id>.json.
package ev

import (
	"encoding/binary"
	"encoding/json"
	"fmt"
	"hash/fnv"
	"os"
	"path/filepath"
	"runtime"
	"sort"
	"strconv"
	"sync"
	"sync/atomic"
	"syscall"
	"testing"
	"time"
)

// Violation is one falsifying case, in a form that can be replayed without the generator.
type Violation struct {
	Property string          `json:"property"`
	Kind     string          `json:"kind"`          // which replayer understands Case
	Sig      string          `json:"sig,omitempty"` // root-cause signature used for known findings
	Msg      string          `json:"msg"`
	Size     int             `json:"size"`             // smaller is better when several shards fail
	Engine   string          `json:"engine,omitempty"` // engine whose TestReplay understands Case (set by the driver)
	Case     json.RawMessage `json:"case"`
}

// Partial is what one shard reports.
type Partial struct {
	Property      string                     `json:"property"`
	Shard         string                     `json:"shard"`
	Tier          string                     `json:"tier"`
	Seed          int64                      `json:"seed"`
	Evaluations   int64                      `json:"evaluations"`
	NonTrivial    int64                      `json:"nontrivial"`
	Classes       map[string]int64           `json:"classes"`
	Samples       []any                      `json:"samples"`
	ExcludedKnown map[string]int64           `json:"excluded_known"`
	KnownExamples map[string]json.RawMessage `json:"known_examples"`
	Violations    []Violation                `json:"violations"`
	Notes         []string                   `json:"notes"`
	Extra         map[string]any             `json:"extra"`
	Completed     bool                       `json:"completed"`
}

// Finding is an entry of /verif/known_findings.json.
type Finding struct {
	Status   string `json:"status"` // "known" or "fixed"
	Property string `json:"property"`
	Sig      string `json:"sig,omitempty"`
	Commit   string `json:"commit,omitempty"`
	What     string `json:"what"`
	Line     string `json:"line,omitempty"`
}

// FindingsFile is the layout of /verif/known_findings.json.
type FindingsFile struct {
	Findings []Finding `json:"findings"`
}

// Shard collects the evidence of one shard process.
type Shard struct {
	mu       sync.Mutex
	p        Partial
	out      string
	hashes   map[uint64]struct{}
	known    map[string]bool // signatures listed as known for this property
	maxSamp  int
	progress []byte
	failed   bool
	frozen   bool
	ticks    uint64
}

// Env helpers -------------------------------------------------------------------------

// Tier returns "quick" or "thorough".
func Tier() string {
	if os.Getenv("VERIF_TIER") == "thorough" {
		return "thorough"
	}
	return "quick"
}

// Thorough reports whether the thorough tier is running.
func Thorough() bool { return Tier() == "thorough" }

// Seed returns the VERIF_SEED value (0/unset/garbage are remapped by the driver).
func Seed() int64 {
	n, err := strconv.ParseInt(os.Getenv("VERIF_SEED"), 10, 64)
	if err != nil || n == 0 {
		return 20240229
	}
	return n
}

// EnvInt reads an integer environment variable with a default.
func EnvInt(name string, def int64) int64 {
	n, err := strconv.ParseInt(os.Getenv(name), 10, 64)
	if err != nil {
		return def
	}
	return n
}

// Root is the /verif directory.
func Root() string {
	if r := os.Getenv("VERIF_ROOT"); r != "" {
		return r
	}
	return "/verif"
}

// Open creates the collector for property id. Flush is registered as a test cleanup.
func Open(t testing.TB, id string) *Shard {
	s := &Shard{
		out:     os.Getenv("VERIF_OUT"),
		hashes:  map[uint64]struct{}{},
		known:   map[string]bool{},
		maxSamp: 8,
	}
	s.p = Partial{
		Property:      id,
		Shard:         os.Getenv("VERIF_SHARD"),
		Tier:          Tier(),
		Seed:          Seed(),
		Classes:       map[string]int64{},
		ExcludedKnown: map[string]int64{},
		KnownExamples: map[string]json.RawMessage{},
		Extra:         map[string]any{},
	}
	if data, err := os.ReadFile(filepath.Join(Root(), "known_findings.json")); err == nil {
		var ff FindingsFile
		if json.Unmarshal(data, &ff) == nil {
			for _, f := range ff.Findings {
				if f.Status == "known" && f.Property == id && f.Sig != "" {
					s.known[f.Sig] = true
				}
			}
		}
	}
	if path := os.Getenv("VERIF_PROGRESS"); path != "" {
		if f, err := os.OpenFile(path, os.O_RDWR, 0); err == nil {
			if st, err := f.Stat(); err == nil && st.Size() >= 16 {
				if m, err := syscall.Mmap(int(f.Fd()), 0, int(st.Size()), syscall.PROT_READ|syscall.PROT_WRITE, syscall.MAP_SHARED); err == nil {
					s.progress = m
				}
			}
			f.Close()
		}
	}
	t.Cleanup(func() { s.Flush(true) })
	return s
}

// ProgressSlots is the number of most recent cases kept in the progress area. More than one
// is kept because a crash can surface late: the lexer goroutine of an earlier input may
// still be running (and die) while the shard has moved on to the next inputs.
const ProgressSlots = 8

// Progress publishes the case in flight to the driver through shared memory, so that a
// crash or stall of this process can be attributed to it. Cost: a few memory stores.
// Layout: [0:8] number of calls so far; then ProgressSlots slots of equal size, each
// [0:8] index, [8:12] payload length (0xffffffff while being written), [12:] payload.
func (s *Shard) Progress(idx uint64, payload []byte) {
	if s.progress == nil {
		return
	}
	slotSize := (len(s.progress) - 16) / ProgressSlots
	seq := binary.LittleEndian.Uint64(s.progress[0:8])
	slot := s.progress[16+int(seq%ProgressSlots)*slotSize:][:slotSize]
	n := len(payload)
	if n > slotSize-12 {
		n = slotSize - 12
	}
	binary.LittleEndian.PutUint32(slot[8:12], 0xffffffff)
	binary.LittleEndian.PutUint64(slot[0:8], idx)
	copy(slot[12:], payload[:n])
	binary.LittleEndian.PutUint32(slot[8:12], uint32(n))
	binary.LittleEndian.PutUint64(s.progress[0:8], seq+1)
}

// Eval counts one executed case.
func (s *Shard) Eval() {
	s.mu.Lock()
	if !s.frozen {
		s.p.Evaluations++
	}
	s.mu.Unlock()
}

// EvalN counts n executed cases.
func (s *Shard) EvalN(n int64) {
	s.mu.Lock()
	if !s.frozen {
		s.p.Evaluations += n
	}
	s.mu.Unlock()
}

// Evaluations returns the number of cases counted so far.
func (s *Shard) Evaluations() int64 { s.mu.Lock(); defer s.mu.Unlock(); return s.p.Evaluations }

// Hash64 is the hash used for distinctness.
func Hash64(key string) uint64 {
	h := fnv.New64a()
	h.Write([]byte(key))
	return h.Sum64()
}

// NonTrivial records a case that is non-trivial by the property's rule, keyed for distinctness.
func (s *Shard) NonTrivial(key string) {
	h := Hash64(key)
	s.mu.Lock()
	if !s.frozen {
		s.hashes[h] = struct{}{}
	}
	s.mu.Unlock()
}

// Class bumps a generator/outcome class counter.
func (s *Shard) Class(name string) { s.ClassN(name, 1) }

// ClassN bumps a class counter by n.
func (s *Shard) ClassN(name string, n int64) {
	s.mu.Lock()
	if !s.frozen {
		s.p.Classes[name] += n
	}
	s.mu.Unlock()
}

// Sample keeps up to maxSamp samples: the first few, then (deterministically) sparser ones.
func (s *Shard) Sample(v any) {
	s.mu.Lock()
	defer s.mu.Unlock()
	if s.frozen {
		return
	}
	n := s.p.Evaluations
	if len(s.p.Samples) < s.maxSamp/2 {
		s.p.Samples = append(s.p.Samples, v)
		return
	}
	// keep later, typically larger cases too: replace slot by powers of two of the eval count
	if n > 0 && n&(n-1) == 0 {
		if len(s.p.Samples) < s.maxSamp {
			s.p.Samples = append(s.p.Samples, v)
		} else {
			slot := s.maxSamp/2 + int(n>>3)%(s.maxSamp/2)
			s.p.Samples[slot] = v
		}
	}
}

// WantSample tells whether Sample would keep a value now (to avoid building it otherwise).
func (s *Shard) WantSample() bool {
	s.mu.Lock()
	defer s.mu.Unlock()
	n := s.p.Evaluations
	return len(s.p.Samples) < s.maxSamp/2 || (n > 0 && n&(n-1) == 0)
}

// Note adds a free-text note to the evidence.
func (s *Shard) Note(format string, a ...any) {
	s.mu.Lock()
	s.p.Notes = append(s.p.Notes, fmt.Sprintf(format, a...))
	s.mu.Unlock()
}

// Extra sets an extra evidence key.
func (s *Shard) Extra(key string, v any) { s.mu.Lock(); s.p.Extra[key] = v; s.mu.Unlock() }

// IsKnown reports whether sig is a listed known finding of this property. A case that
// matches is excluded by construction: it is counted and otherwise treated as passing.
func (s *Shard) IsKnown(sig string) bool { return sig != "" && s.known[sig] }

// Known counts a case excluded because it matches a listed known finding.
func (s *Shard) Known(sig string, c any) {
	s.mu.Lock()
	defer s.mu.Unlock()
	s.p.ExcludedKnown[sig]++
	if _, ok := s.p.KnownExamples[sig]; !ok {
		if data, err := json.Marshal(c); err == nil {
			s.p.KnownExamples[sig] = data
		}
	}
}

// Violation records a falsifying case.
func (s *Shard) Violation(kind, sig, msg string, size int, c any) {
	data, err := json.Marshal(c)
	if err != nil {
		data = []byte(strconv.Quote(fmt.Sprint(c)))
	}
	s.mu.Lock()
	defer s.mu.Unlock()
	s.failed = true
	s.p.Violations = append(s.p.Violations, Violation{Property: s.p.Property, Kind: kind, Sig: sig, Msg: msg, Size: size, Case: data})
}

// Failed reports whether a violation has been recorded.
func (s *Shard) Failed() bool { s.mu.Lock(); defer s.mu.Unlock(); return s.failed }

// ID returns the property id.
func (s *Shard) ID() string { return s.p.Property }

// Flush writes the partial evidence (and the hash set) into $VERIF_OUT.
func (s *Shard) Flush(completed bool) {
	s.mu.Lock()
	defer s.mu.Unlock()
	if s.out == "" {
		return
	}
	s.p.Completed = completed
	s.p.NonTrivial = int64(len(s.hashes))
	hs := make([]uint64, 0, len(s.hashes))
	for h := range s.hashes {
		hs = append(hs, h)
	}
	sort.Slice(hs, func(i, j int) bool { return hs[i] < hs[j] })
	buf := make([]byte, 8*len(hs))
	for i, h := range hs {
		binary.LittleEndian.PutUint64(buf[8*i:], h)
	}
	_ = os.MkdirAll(s.out, 0o755)
	_ = os.WriteFile(filepath.Join(s.out, "nt.bin"), buf, 0o644)
	data, err := json.Marshal(s.p)
	if err != nil {
		data = []byte(fmt.Sprintf(`{"property":%q,"notes":["marshal error: %s"]}`, s.p.Property, err))
	}
	tmp := filepath.Join(s.out, "ev.json.tmp")
	_ = os.WriteFile(tmp, data, 0o644)
	_ = os.Rename(tmp, filepath.Join(s.out, "ev.json"))
}

// Freeze stops all counters (used while rapid shrinks a failing case, so that shrink
// attempts are not reported as generated cases).
func (s *Shard) Freeze() { s.mu.Lock(); s.frozen = true; s.mu.Unlock() }

// Frozen reports whether counting is suspended.
func (s *Shard) Frozen() bool { s.mu.Lock(); defer s.mu.Unlock(); return s.frozen }

// Plan -------------------------------------------------------------------------------

// ShardSpec describes one process the driver must run.
type ShardSpec struct {
	Name     string            `json:"name"`
	Test     string            `json:"test"` // -test.run regexp
	Args     []string          `json:"args,omitempty"`
	Env      map[string]string `json:"env,omitempty"`
	TimeoutS int               `json:"timeout_s,omitempty"`
	// Range shards enumerate [Lo,Hi) and can be resumed behind a crashing index.
	Range bool   `json:"range,omitempty"`
	Lo    uint64 `json:"lo,omitempty"`
	Hi    uint64 `json:"hi,omitempty"`
	Race  bool   `json:"race,omitempty"` // run with the -race build of the engine
	// Engine is filled in by the driver: the engine package this shard belongs to.
	Engine string `json:"engine,omitempty"`
	// Wrap is put in front of the test binary (e.g. taskset -c 0 to make the process see one CPU).
	Wrap []string `json:"wrap,omitempty"`
	// AsNobody: the shard process runs as uid/gid 65534 (when the driver is root and setpriv exists;
	// otherwise the shard is left out with a note): permission errors are invisible to root.
	AsNobody bool `json:"as_nobody,omitempty"`
	Fuzz     bool `json:"fuzz,omitempty"` // a native `go test -fuzz` campaign (driver runs `go test`)
}

// Plan is what an engine answers when asked how to check a property in a tier.
type Plan struct {
	Property         string      `json:"property"`
	Level            string      `json:"level"`
	Rule             string      `json:"rule"`
	Assumptions      []string    `json:"assumptions"`
	Shards           []ShardSpec `json:"shards"`
	Parallel         int         `json:"parallel,omitempty"`
	CrashIsViolation bool        `json:"crash_is_violation,omitempty"`
	ReplayKindCrash  string      `json:"replay_kind_crash,omitempty"` // kind given to a case reconstructed from the progress area
	Exhaustive       bool        `json:"exhaustive,omitempty"`
	Explanation      string      `json:"explanation,omitempty"`
}

// WritePlan stores the plan where the driver expects it.
func WritePlan(p Plan) error {
	out := os.Getenv("VERIF_OUT")
	if out == "" {
		data, _ := json.MarshalIndent(p, "", " ")
		fmt.Println(string(data))
		return nil
	}
	data, err := json.Marshal(p)
	if err != nil {
		return err
	}
	return os.WriteFile(filepath.Join(out, "plan.json"), data, 0o644)
}

// RangeShards splits [0,total) into shards of at most per indices.
func RangeShards(prefix, test string, total, per uint64, env map[string]string) []ShardSpec {
	var out []ShardSpec
	for lo := uint64(0); lo < total; lo += per {
		hi := lo + per
		if hi > total {
			hi = total
		}
		out = append(out, ShardSpec{Name: fmt.Sprintf("%s-%d", prefix, lo/per), Test: test, Range: true, Lo: lo, Hi: hi, Env: env})
	}
	return out
}

// RapidShards makes n rapid shards of checks cases each, with seeds derived from Seed().
func RapidShards(prefix, test string, n int, checks int, env map[string]string) []ShardSpec {
	var out []ShardSpec
	for i := 0; i < n; i++ {
		seed := uint64(Seed())*1000003 + uint64(i)*7919 + 1
		seed &= 0x7fffffffffffffff
		if seed == 0 {
			seed = 1
		}
		out = append(out, ShardSpec{
			Name: fmt.Sprintf("%s-%d", prefix, i), Test: test, Env: env,
			Args: []string{fmt.Sprintf("-rapid.checks=%d", checks), fmt.Sprintf("-rapid.seed=%d", seed), "-rapid.nofailfile"},
		})
	}
	return out
}

// Lo/Hi of a range shard.
func RangeFromEnv() (lo, hi uint64) {
	lo, _ = strconv.ParseUint(os.Getenv("VERIF_LO"), 10, 64)
	hi, _ = strconv.ParseUint(os.Getenv("VERIF_HI"), 10, 64)
	return
}

// Watchdog turns a stall of the case in flight into a prompt abnormal exit (status 3), so
// that the driver can attribute it through the progress area instead of waiting for the
// shard deadline. It also bounds the heap. tick is called by the shard once per case.
func (s *Shard) Watchdog(limit time.Duration, maxHeap uint64) {
	go func() {
		var last uint64
		since, cpuSince := time.Now(), processCPU()
		for {
			time.Sleep(500 * time.Millisecond)
			cur := atomic.LoadUint64(&s.ticks)
			if cur != last {
				last, since, cpuSince = cur, time.Now(), processCPU()
			} else if cur != 0 {
				// Wall-clock time alone says nothing on a busy machine (a case that needs three seconds
				// of CPU can take half a minute there). A case is stalled when this process has burnt
				// CPU well beyond the limit on it (a loop, a blow-up), or when nothing has moved for
				// very long (a deadlock burns nothing).
				wall, cpu := time.Since(since), processCPU()-cpuSince
				if cpu > 3*limit || wall > 12*limit {
					fmt.Fprintf(os.Stderr, "WATCHDOG: case in flight made no progress for %v (%v of CPU time)\n", wall.Round(time.Second), cpu.Round(time.Second))
					os.Exit(3)
				}
			}
			var ms runtime.MemStats
			runtime.ReadMemStats(&ms)
			if maxHeap > 0 && ms.HeapAlloc > maxHeap {
				fmt.Fprintf(os.Stderr, "WATCHDOG: heap grew to %d bytes while executing the case in flight\n", ms.HeapAlloc)
				os.Exit(4)
			}
		}
	}()
}

// processCPU is the CPU time (user + system) this process has used so far.
func processCPU() time.Duration {
	var ru syscall.Rusage
	if err := syscall.Getrusage(syscall.RUSAGE_SELF, &ru); err != nil {
		return 0
	}
	return time.Duration(ru.Utime.Nano() + ru.Stime.Nano())
}

// Tick tells the watchdog that a new case started.
func (s *Shard) Tick() { atomic.AddUint64(&s.ticks, 1) }

// Done stops stall detection (ticks reset to zero means "not executing a case").
func (s *Shard) Done() { atomic.StoreUint64(&s.ticks, 0) }
