package cli

import (
	"fmt"
	"os"
	"path/filepath"
	"strings"

	"pgregory.net/rapid"

	"verif/ev"
	"verif/rp"
	"verif/sandbox"
)

// ForceCase: a small program run once (so that every task is cached), then forced.
type ForceCase struct {
	// ProjDir names the directory holding the spokfile ("" = proj)
	ProjDir string   `json:"proj_dir,omitempty"`
	NTasks  int      `json:"ntasks"`
	Deps    [][2]int `json:"deps"`     // i depends on j (j > i)
	FileDep []bool   `json:"file_dep"` // per task
	Via     string   `json:"via"`      // "name": spok --force t0 ; "default": spok --force ; "clean": spok --clean --force
	Extra   []string `json:"extra"`    // extra flags on the forced run (--json, --quiet)
}

var forceNames = []string{"alpha", "bravo", "charlie"}

func genForce(t *rapid.T) ForceCase {
	c := genForceBody(t)
	c.ProjDir = genProjDir(t)
	return c
}

func genForceBody(t *rapid.T) ForceCase {
	n := rapid.IntRange(1, 3).Draw(t, "ntasks")
	c := ForceCase{NTasks: n}
	for i := 0; i < n; i++ {
		c.FileDep = append(c.FileDep, rapid.IntRange(0, 3).Draw(t, "filedep") != 0)
		for j := i + 1; j < n; j++ {
			if rapid.Bool().Draw(t, "dep") {
				c.Deps = append(c.Deps, [2]int{i, j})
			}
		}
	}
	c.Via = rapid.SampledFrom([]string{"name", "default", "clean", "default", "clean"}).Draw(t, "via")
	c.Extra = rapid.SampledFrom([][]string{nil, nil, {"--json"}, {"--quiet"}}).Draw(t, "extra")
	return c
}

func (c ForceCase) name(i int) string {
	if i == 0 && c.Via != "name" {
		return c.Via
	}
	return forceNames[i]
}

func (c ForceCase) source() string {
	var b strings.Builder
	for i := 0; i < c.NTasks; i++ {
		var args []string
		if c.FileDep[i] {
			args = append(args, `"in.txt"`)
		}
		for _, d := range c.Deps {
			if d[0] == i {
				args = append(args, c.name(d[1]))
			}
		}
		fmt.Fprintf(&b, "task %s(%s) {\n    echo ran%d >> $LOG\n}\n\n", c.name(i), strings.Join(args, ", "), i)
	}
	return b.String()
}

func (c ForceCase) closure() map[int]bool {
	out := map[int]bool{}
	var visit func(int)
	visit = func(i int) {
		if out[i] {
			return
		}
		out[i] = true
		for _, d := range c.Deps {
			if d[0] == i {
				visit(d[1])
			}
		}
	}
	visit(0)
	return out
}

func execForce(s *ev.Shard, b *sandbox.Box, c ForceCase) *rp.Fail {
	if err := b.ResetAs(c.ProjDir); err != nil {
		return &rp.Fail{Sig: "harness", Msg: err.Error()}
	}
	src := c.source()
	if err := writeProject(b, b.Proj, map[string]string{"spokfile": src, "in.txt": "input"}); err != nil {
		return &rp.Fail{Sig: "harness", Msg: err.Error()}
	}
	logPath := filepath.Join(b.Home, "run.log")
	env := []string{"LOG=" + logPath}
	var sel []string
	switch c.Via {
	case "name":
		sel = []string{c.name(0)}
	case "clean":
		sel = []string{"--clean"}
	}
	size := c.NTasks + len(c.Deps) + len(c.Extra)
	if r := b.Run(b.Proj, env, runTimeout, sel...); r.Exit != 0 {
		return &rp.Fail{Sig: "valid-run-failed", Size: size, Msg: fmt.Sprintf("spokfile:\n%s`spok %s` failed: %s", src, strings.Join(sel, " "), sandbox.Strip(r.Stderr))}
	}
	_ = os.Remove(logPath)
	args := append(append([]string{"--force"}, c.Extra...), sel...)
	r := b.Run(b.Proj, env, runTimeout, args...)
	log := readLog(logPath)
	desc := fmt.Sprintf("spokfile:\n%safter one successful `spok %s`: `spok %s` (exit %d, log %v)", src, strings.Join(sel, " "), strings.Join(args, " "), r.Exit, log)
	if r.Exit != 0 {
		return &rp.Fail{Sig: "valid-run-failed", Size: size, Msg: desc + ": failed: " + sandbox.Strip(r.Stderr)}
	}
	for i := range c.closure() {
		if !contains(log, fmt.Sprintf("ran%d", i)) {
			return &rp.Fail{Sig: "forced-task-not-executed", Size: size, Msg: fmt.Sprintf("%s: task %s is in the requested closure but did not run under --force", desc, c.name(i))}
		}
	}
	if strings.Contains(sandbox.Strip(r.Stdout), "skipped") && !contains(c.Extra, "--json") {
		return &rp.Fail{Sig: "forced-run-skipped", Size: size, Msg: desc + ": a task is reported skipped under --force:\n" + sandbox.Strip(r.Stdout)}
	}
	if contains(c.Extra, "--json") {
		if res, ok := parseJSON(r.Stdout); ok {
			for _, tr := range res {
				if tr.Skipped {
					return &rp.Fail{Sig: "forced-run-skipped", Size: size, Msg: fmt.Sprintf("%s: task %s reported skipped under --force", desc, tr.Task)}
				}
			}
		}
	}
	if s != nil {
		s.Class("forced_via_" + c.Via)
		anyCached := false
		for i := range c.closure() {
			anyCached = anyCached || c.FileDep[i]
		}
		if anyCached {
			s.NonTrivial("bin:" + src + strings.Join(args, " "))
		}
	}
	return nil
}
