package cli

import (
	"fmt"
	"os"
	"path/filepath"
	"strings"

	"pgregory.net/rapid"

	"verif/ev"
	"verif/rp"
	"verif/sandbox"
)

// ForceCase: a small program run once (so that every task is cached), then forced.
type ForceCase struct {
	// ProjDir names the directory holding the spokfile ("" = proj)
	ProjDir string `json:"proj_dir,omitempty"`
	// Invoke: how spok is pointed at the project (sandbox.Box.Invoke)
	Invoke string `json:"invoke,omitempty"`
	// Outputs: "files" = standard output and error are regular files (sandbox.Box.FileOutputs)
	Outputs string   `json:"outputs,omitempty"`
	NTasks  int      `json:"ntasks"`
	Deps    [][2]int `json:"deps"`     // i depends on j (j > i)
	FileDep []bool   `json:"file_dep"` // per task
	Via     string   `json:"via"`      // "name": spok --force t0 ; "default": spok --force ; "clean": spok --clean --force
	Extra   []string `json:"extra"`    // extra flags on the forced run (--json, --quiet)
	// The second half of the property: in.txt is optionally edited before the forced run
	// (EditBefore) and put back after it (RevertAfter), the cache is optionally read-only while the
	// forced run lasts (RO: "file" or "dir"), then the same selection is run once more without --force.
	EditBefore  bool   `json:"edit_before,omitempty"`
	RevertAfter bool   `json:"revert_after,omitempty"`
	RO          string `json:"ro,omitempty"`
	// Stdout of the forced run: "" a pipe that is read, "full" /dev/full (every write fails), "closed" a
	// pipe nobody reads. What spok cannot print has no bearing on what --force makes it execute
	// (a closed pipe may kill it: then nothing is demanded of that run).
	Stdout string `json:"stdout,omitempty"`
}

var forceNames = []string{"alpha", "bravo", "charlie"}

func genForce(t *rapid.T) ForceCase {
	c := genForceBody(t)
	c.ProjDir = genProjDir(t)
	c.Invoke = genInvoke(t)
	c.Outputs = genOutputs(t)
	return c
}

func genForceBody(t *rapid.T) ForceCase {
	n := rapid.IntRange(1, 3).Draw(t, "ntasks")
	c := ForceCase{NTasks: n}
	for i := 0; i < n; i++ {
		c.FileDep = append(c.FileDep, rapid.IntRange(0, 3).Draw(t, "filedep") != 0)
		for j := i + 1; j < n; j++ {
			if rapid.Bool().Draw(t, "dep") {
				c.Deps = append(c.Deps, [2]int{i, j})
			}
		}
	}
	c.Via = rapid.SampledFrom([]string{"name", "default", "clean", "default", "clean"}).Draw(t, "via")
	c.Extra = rapid.SampledFrom([][]string{nil, nil, {"--json"}, {"--quiet"}}).Draw(t, "extra")
	c.EditBefore = rapid.Bool().Draw(t, "edit_before")
	c.RevertAfter = rapid.Bool().Draw(t, "revert_after")
	if rapid.IntRange(0, 3).Draw(t, "ro") == 0 {
		c.RO = rapid.SampledFrom([]string{"file", "dir"}).Draw(t, "ro_kind")
	}
	c.Stdout = rapid.SampledFrom([]string{"", "", "", "", "full", "full", "closed"}).Draw(t, "stdout")
	return c
}

func (c ForceCase) name(i int) string {
	if i == 0 && c.Via != "name" {
		return c.Via
	}
	return forceNames[i]
}

func (c ForceCase) source() string {
	var b strings.Builder
	for i := 0; i < c.NTasks; i++ {
		var args []string
		if c.FileDep[i] {
			args = append(args, `"in.txt"`)
		}
		for _, d := range c.Deps {
			if d[0] == i {
				args = append(args, c.name(d[1]))
			}
		}
		fmt.Fprintf(&b, "task %s(%s) {\n    echo ran%d >> $LOG\n}\n\n", c.name(i), strings.Join(args, ", "), i)
	}
	return b.String()
}

func (c ForceCase) closure() map[int]bool {
	out := map[int]bool{}
	var visit func(int)
	visit = func(i int) {
		if out[i] {
			return
		}
		out[i] = true
		for _, d := range c.Deps {
			if d[0] == i {
				visit(d[1])
			}
		}
	}
	visit(0)
	return out
}

func execForce(s *ev.Shard, b *sandbox.Box, c ForceCase) *rp.Fail {
	if err := b.ResetFor(c.ProjDir, c.Invoke); err != nil {
		return &rp.Fail{Sig: "harness", Msg: err.Error()}
	}
	b.FileOutputs = c.Outputs == "files"
	src := c.source()
	if err := writeProject(b, b.Proj, map[string]string{"spokfile": src, "in.txt": "input"}); err != nil {
		return &rp.Fail{Sig: "harness", Msg: err.Error()}
	}
	logPath := filepath.Join(b.Home, "run.log")
	env := []string{"LOG=" + logPath}
	var sel []string
	switch c.Via {
	case "name":
		sel = []string{c.name(0)}
	case "clean":
		sel = []string{"--clean"}
	}
	size := c.NTasks + len(c.Deps) + len(c.Extra)
	if r := b.Run(b.Proj, env, runTimeout, sel...); r.Exit != 0 {
		return &rp.Fail{Sig: "valid-run-failed", Size: size, Msg: fmt.Sprintf("spokfile:\n%s`spok %s` failed: %s", src, strings.Join(sel, " "), sandbox.Strip(r.Stderr))}
	}
	_ = os.Remove(logPath)
	content := "input"
	lastOn := map[int]string{} // per task: content of in.txt at its last completed run
	for i := range c.closure() {
		lastOn[i] = content
	}
	if c.EditBefore {
		content = "edited"
		if err := sandbox.Write(b.Proj, "in.txt", content); err != nil {
			return &rp.Fail{Sig: "harness", Msg: err.Error()}
		}
		_ = b.Own()
	}
	cacheDir := filepath.Join(b.Proj, ".spok")
	switch c.RO {
	case "file":
		_ = os.Chmod(filepath.Join(cacheDir, "cache.json"), 0o444)
	case "dir":
		_ = os.Chmod(cacheDir, 0o555)
	}
	args := append(append([]string{"--force"}, c.Extra...), sel...)
	b.FullStdout, b.ClosedStdout = c.Stdout == "full", c.Stdout == "closed"
	r := b.Run(b.Proj, env, runTimeout, args...)
	if c.RO != "" {
		_ = os.Chmod(cacheDir, 0o755)
		_ = os.Chmod(filepath.Join(cacheDir, "cache.json"), 0o644)
	}
	log := readLog(logPath)
	for i := range c.closure() {
		if contains(log, fmt.Sprintf("ran%d", i)) {
			lastOn[i] = content
		}
	}
	desc := fmt.Sprintf("spokfile:\n%safter one successful `spok %s`%s: `spok %s`%s (exit %d, log %v)", src, strings.Join(sel, " "), map[bool]string{true: " and an edit of in.txt"}[c.EditBefore], strings.Join(args, " "), map[string]string{"file": " with .spok/cache.json read-only", "dir": " with .spok read-only"}[c.RO], r.Exit, log)
	// afterwards: in.txt optionally put back, then the same selection without --force. Whatever the
	// forced run did or could not do, a task is only skipped on the inputs it last completed on
	later := func() *rp.Fail {
		if c.RevertAfter && content != "input" {
			content = "input"
			if err := sandbox.Write(b.Proj, "in.txt", content); err != nil {
				return &rp.Fail{Sig: "harness", Msg: err.Error()}
			}
			_ = b.Own()
		}
		_ = os.Remove(logPath)
		r3 := b.Run(b.Proj, env, runTimeout, sel...)
		log3 := readLog(logPath)
		if r3.Exit != 0 {
			return &rp.Fail{Sig: "valid-run-failed", Size: size, Msg: fmt.Sprintf("%s; then `spok %s` failed: %s", desc, strings.Join(sel, " "), sandbox.Strip(r3.Stderr))}
		}
		for i := range c.closure() {
			if c.FileDep[i] && !contains(log3, fmt.Sprintf("ran%d", i)) && lastOn[i] != content {
				return &rp.Fail{Sig: "wrong-skip-after-force", Size: size, Msg: fmt.Sprintf("%s; then (in.txt = %q) `spok %s` (log %v): task %s was skipped although it last completed on in.txt = %q", desc, content, strings.Join(sel, " "), log3, c.name(i), lastOn[i])}
			}
		}
		return nil
	}
	if r.Exit != 0 && c.RO != "" && strings.Contains(strings.ToLower(sandbox.Strip(r.Stderr)), "cache") {
		// spok refused to go on without a writable cache: an explicit error, the forced run did not happen
		if s != nil {
			s.Class("forced_run_refused_unwritable_cache")
		}
		return later()
	}
	if c.Stdout == "closed" && (r.Signal != "" || r.Exit != 0) {
		// killed (or stopped) at its first message to a reader that has gone away: nothing to judge in that run
		if s != nil {
			s.Class("forced_run_cut_short_by_closed_stdout")
		}
		return later()
	}
	if c.Stdout != "" {
		desc += fmt.Sprintf(" [standard output: %s]", map[string]string{"full": "/dev/full", "closed": "a pipe nobody reads"}[c.Stdout])
	}
	if r.Exit != 0 && c.Stdout != "full" {
		return &rp.Fail{Sig: "valid-run-failed", Size: size, Msg: desc + ": failed: " + sandbox.Strip(r.Stderr)}
	}
	for i := range c.closure() {
		if !contains(log, fmt.Sprintf("ran%d", i)) {
			return &rp.Fail{Sig: "forced-task-not-executed", Size: size, Msg: fmt.Sprintf("%s: task %s is in the requested closure but did not run under --force", desc, c.name(i))}
		}
	}
	if strings.Contains(sandbox.Strip(r.Stdout), "skipped") && !contains(c.Extra, "--json") {
		return &rp.Fail{Sig: "forced-run-skipped", Size: size, Msg: desc + ": a task is reported skipped under --force:\n" + sandbox.Strip(r.Stdout)}
	}
	if contains(c.Extra, "--json") {
		if res, ok := parseJSON(r.Stdout); ok {
			for _, tr := range res {
				if tr.Skipped {
					return &rp.Fail{Sig: "forced-run-skipped", Size: size, Msg: fmt.Sprintf("%s: task %s reported skipped under --force", desc, tr.Task)}
				}
			}
		}
	}
	if f := later(); f != nil {
		return f
	}
	if s != nil {
		s.Class("forced_via_" + c.Via)
		if c.EditBefore && c.RevertAfter {
			s.Class("forced_on_edit_then_reverted")
		}
		anyCached := false
		for i := range c.closure() {
			anyCached = anyCached || c.FileDep[i]
		}
		if anyCached {
			s.NonTrivial("bin:" + src + strings.Join(args, " ") + fmt.Sprint(c.EditBefore, c.RevertAfter, c.RO))
		}
	}
	return nil
}
