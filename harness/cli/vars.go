package cli

import (
	"fmt"
	"os"
	"path/filepath"
	"sort"
	"strings"

	"pgregory.net/rapid"

	"verif/ev"
	"verif/rp"
	"verif/sandbox"
)

// VarDef is one variable definition of a C13 program.
type VarDef struct {
	Name string   `json:"name"`
	Kind string   `json:"kind"` // string exec join
	Text string   `json:"text,omitempty"`
	Args []string `json:"args,omitempty"`
	Want string   `json:"want"`           // expected value ("" with Fail for a failing exec); join: filled at run time
	Fail bool     `json:"fail,omitempty"` // exec that exits non-zero
}

// VarsCase is a C13 case.
type VarsCase struct {
	// ProjDir names the directory holding the spokfile ("" = proj)
	ProjDir string `json:"proj_dir,omitempty"`
	// Invoke: how spok is pointed at the project (sandbox.Box.Invoke)
	Invoke string `json:"invoke,omitempty"`
	// Outputs: "files" = standard output and error are regular files (sandbox.Box.FileOutputs)
	Outputs string            `json:"outputs,omitempty"`
	Vars    []VarDef          `json:"vars"`
	Ambient map[string]string `json:"ambient"`
	DotEnv  map[string]string `json:"dotenv"`
	Nested  bool              `json:"nested"` // run from a nested directory
	// Split > 0: a task "early" is defined after the first Split variables (and uses only
	// those), the remaining variables and the task "show" follow it.
	Split int `json:"split,omitempty"`
	// NamedOut: a variable that the task show also declares as its (named) output
	NamedOut string `json:"named_out,omitempty"`
	// Gate: the probing task depends on a task gate("gate.txt") that has already run successfully, so
	// it is reported skipped in front of it: what an earlier task of the run did or did not do must not
	// change what reaches the commands of a later one
	Gate bool `json:"gate,omitempty"`
	// BadBraces: the probing task gets one more command that holds a proper reference next to braces the
	// template syntax cannot read (an awk program). spok may reject the spokfile; if it runs the command,
	// the reference in it is replaced like any other
	BadBraces bool `json:"bad_braces,omitempty"`
	// Flags: further flags on the judged run (--debug, --force, --quiet is not among them since the JSON
	// document is what is read): what spok logs or whether it consults its cache has no bearing on values
	Flags []string `json:"flags,omitempty"`
}

var varNames = []string{"AMB_A", "HOME", "LANG", "DOT_B", "BOTH_C", "PLAIN_D", "other", "Mixed_e",
	// names a Go value may also have as a method or field (Env, String, Error, Len): still just names
	"Env", "String", "Error", "Len"}

var valueRunes = []rune("abcXYZ019   $${}{{}}#\\/.,;:!?()[]<>|&*~^%@+=-_`")

type execChoice struct{ arg, want string }

var execChoices = []execChoice{
	{`printf 'x'`, "x"},
	{`printf '  padded  '`, "padded"},
	{`printf 'a\nb\n'`, "a\nb"},
	{`printf '\t tab \t\n\n'`, "tab"},
	{`printf ''`, ""},
	{`echo hello world`, "hello world"},
	{`printf 'in  ner'`, "in  ner"},
	// line ends of the other kind inside the value (a tool that prints CR LF): only what surrounds the
	// value is trimmed. (A CR LF pair inside a quoted word of a command line is read as LF by the
	// shell itself, so for such a value the template side is judged by the command text only.)
	{`printf 'a\r\nb'`, "a\r\nb"},
	{`printf 'one\r\ntwo\r\n'`, "one\r\ntwo"},
}

var joinSegs = []string{".", "..", "", "a/b/", "dist", "/abs/root", "x", "./y//z", "../up", "out dir", "out", "dir", "a b", "a", "b", "link", "sub", "real", "link/sub"}

func genVars(t *rapid.T) VarsCase {
	c := genVarsBody(t)
	c.ProjDir = genProjDir(t)
	c.Invoke = genInvoke(t)
	c.Outputs = genOutputs(t)
	return c
}

func genVarsBody(t *rapid.T) VarsCase {
	c := VarsCase{Ambient: map[string]string{"AMB_A": "ambient-a", "BOTH_C": "ambient-c"}, DotEnv: map[string]string{"DOT_B": "dotenv-b", "BOTH_C": "dotenv-c"}}
	if rapid.IntRange(0, 3).Draw(t, "no_dotenv") == 0 {
		c.DotEnv = map[string]string{}
	}
	c.Nested = rapid.IntRange(0, 3).Draw(t, "nested") == 0
	names := rapid.Permutation(varNames).Draw(t, "names")
	n := rapid.IntRange(0, 5).Draw(t, "nvars")
	for i := 0; i < n; i++ {
		v := VarDef{Name: names[i]}
		switch rapid.IntRange(0, 5).Draw(t, "kind") {
		case 0:
			v.Kind = "exec"
			if rapid.IntRange(0, 7).Draw(t, "execfail") == 0 {
				// exits non-zero, or cannot be started at all (neither script nor binary; no such interpreter)
				v.Text, v.Fail = rapid.SampledFrom([]string{"exit 3", "exit 3", "@TOOLS@/garbage", "@TOOLS@/badinterp", "no-such-program-anywhere"}).Draw(t, "failing_exec"), true
			} else {
				ch := rapid.SampledFrom(execChoices).Draw(t, "exec")
				v.Text, v.Want = ch.arg, ch.want
			}
		case 1:
			v.Kind = "join"
			v.Args = rapid.SliceOfN(rapid.SampledFrom(joinSegs), 0, 4).Draw(t, "joinargs")
		default:
			v.Kind = "string"
			max := 12
			if rapid.IntRange(0, 5).Draw(t, "long_value") == 0 {
				max = 200 // values are not always short: flag lists, long paths
			}
			v.Text = string(rapid.SliceOfN(rapid.SampledFrom(valueRunes), 0, max).Draw(t, "value"))
			v.Want = v.Text
		}
		c.Vars = append(c.Vars, v)
	}
	// pairs of builtin calls whose argument lists read the same when printed with spaces
	switch rapid.IntRange(0, 9).Draw(t, "lookalike") {
	case 8:
		c.Vars = append(c.Vars, VarDef{Name: "JOne", Kind: "join", Args: []string{"out dir"}}, VarDef{Name: "JTwo", Kind: "join", Args: []string{"out", "dir"}})
	case 9:
		c.Vars = append(c.Vars, VarDef{Name: "EOne", Kind: "exec", Text: "echo hi there", Want: "hi there"},
			VarDef{Name: "ETwo", Kind: "exec", Args: []string{"echo", "hi there"}, Fail: true})
	}
	n = len(c.Vars)
	if n > 0 && rapid.IntRange(0, 2).Draw(t, "named_output") == 2 {
		c.NamedOut = c.Vars[rapid.IntRange(0, n-1).Draw(t, "which_output")].Name
	}
	if n > 0 && rapid.Bool().Draw(t, "interleave") {
		c.Split = rapid.IntRange(1, n).Draw(t, "split")
	}
	c.Gate = rapid.IntRange(0, 2).Draw(t, "gate") == 0
	c.BadBraces = n > 0 && rapid.IntRange(0, 7).Draw(t, "bad_braces") == 0
	c.Flags = rapid.SampledFrom([][]string{nil, nil, nil, {"--debug"}, {"--debug"}, {"--force"}, {"-f", "--debug"}}).Draw(t, "run_flags")
	return c
}

func (c VarsCase) source() (src string, cmds map[string][2]string) {
	var b strings.Builder
	def := func(v VarDef) {
		switch v.Kind {
		case "string":
			fmt.Fprintf(&b, "%s := \"%s\"\n", v.Name, v.Text)
		case "exec":
			if len(v.Args) > 0 {
				// exec takes exactly one argument: this definition is an error
				var q []string
				for _, a := range v.Args {
					q = append(q, `"`+a+`"`)
				}
				fmt.Fprintf(&b, "%s := exec(%s)\n", v.Name, strings.Join(q, ", "))
			} else {
				fmt.Fprintf(&b, "%s := exec(\"%s\")\n", v.Name, v.Text)
			}
		case "join":
			var q []string
			for _, a := range v.Args {
				q = append(q, `"`+a+`"`)
			}
			fmt.Fprintf(&b, "%s := join(%s)\n", v.Name, strings.Join(q, ", "))
		}
	}
	probes := func(vars []VarDef) {
		for _, v := range vars {
			fmt.Fprintf(&b, "    printf '%%s' '{{.%s}}'\n", v.Name)
			fmt.Fprintf(&b, "    printf '%%s' \"$%s\"\n", v.Name)
		}
	}
	for i, v := range c.Vars {
		if c.Split > 0 && i == c.Split {
			b.WriteString("\ntask early() {\n")
			probes(c.Vars[:c.Split])
			b.WriteString("    echo early\n}\n\n")
		}
		def(v)
	}
	if c.Split > 0 && c.Split == len(c.Vars) {
		b.WriteString("\ntask early() {\n")
		probes(c.Vars[:c.Split])
		b.WriteString("    echo early\n}\n")
	}
	showDeps := ""
	if c.Gate {
		b.WriteString("\ntask gate(\"gate.txt\") {\n    echo gate\n}\n")
		showDeps = "gate"
	}
	if c.NamedOut != "" {
		fmt.Fprintf(&b, "\ntask show(%s) -> %s {\n", showDeps, c.NamedOut)
	} else {
		fmt.Fprintf(&b, "\ntask show(%s) {\n", showDeps)
	}
	probes(c.Vars)
	if len(c.Vars) >= 2 {
		fmt.Fprintf(&b, "    echo 'pre {{.%s}} mid {{.%s}}' post $UNSET_VAR 'lit {{.%s}}'\n", c.Vars[0].Name, c.Vars[1].Name, c.Vars[0].Name)
	}
	if c.BadBraces && len(c.Vars) > 0 {
		fmt.Fprintf(&b, "    printf '%%s' '{{.%s}}' | awk '{{ print $1, $2 }}'\n", c.Vars[0].Name)
	}
	b.WriteString("    echo done\n}\n")
	return b.String(), nil
}

func execVars(s *ev.Shard, b *sandbox.Box, c VarsCase) *rp.Fail {
	if err := b.ResetFor(c.ProjDir, c.Invoke); err != nil {
		return &rp.Fail{Sig: "harness", Msg: err.Error()}
	}
	b.FileOutputs = c.Outputs == "files"
	src, _ := c.source()
	tools := filepath.Join(b.Home, "tools")
	src = strings.ReplaceAll(src, "@TOOLS@", tools)
	if err := writeProject(b, b.Home, map[string]string{"tools/garbage": "\x01\x02 neither a script nor a binary\n", "tools/badinterp": "#!/no/such/interpreter\necho hi\n"}); err != nil {
		return &rp.Fail{Sig: "harness", Msg: err.Error()}
	}
	_ = os.Chmod(filepath.Join(tools, "garbage"), 0o755)
	_ = os.Chmod(filepath.Join(tools, "badinterp"), 0o755)
	files := map[string]string{"spokfile": src, "nested/dir/": "", "real/sub/": "", "out/dir/": "", "gate.txt": "gate"}
	if len(c.DotEnv) > 0 {
		var keys []string
		for k := range c.DotEnv {
			keys = append(keys, k)
		}
		sort.Strings(keys)
		env := ""
		for _, k := range keys {
			env += k + "=" + c.DotEnv[k] + "\n"
		}
		files[".env"] = env
	}
	if err := writeProject(b, b.Proj, files); err != nil {
		return &rp.Fail{Sig: "harness", Msg: err.Error()}
	}
	// a symbolic link on the way: join() is lexical, it does not resolve links
	if err := os.Symlink("real", filepath.Join(b.Proj, "link")); err != nil && !os.IsExist(err) {
		return &rp.Fail{Sig: "harness", Msg: err.Error()}
	}
	_ = os.Lchown(filepath.Join(b.Proj, "link"), 65534, 65534)
	cwd := b.Proj
	if c.Nested {
		cwd = b.Proj + "/nested/dir"
	}
	var env []string
	for k, v := range c.Ambient {
		env = append(env, k+"="+v)
	}
	sort.Strings(env)
	size := len(c.Vars)*5 + len(c.DotEnv)
	anyFail := false
	want := map[string]string{}
	for _, v := range c.Vars {
		switch {
		case v.Fail:
			anyFail = true
		case v.Kind == "join":
			want[v.Name] = cleanPath(b.EffectiveCwd(cwd), v.Args)
		default:
			want[v.Name] = v.Want
		}
	}
	desc := fmt.Sprintf("spokfile:\n%s(ambient %v, .env %v, cwd nested=%v)", src, c.Ambient, c.DotEnv, c.Nested)

	request := []string{"show"}
	if c.Split > 0 {
		request = []string{"early", "show"}
	}
	if c.Gate && !anyFail {
		if r0 := b.Run(cwd, env, runTimeout, "gate"); r0.Exit != 0 && !c.BadBraces {
			return &rp.Fail{Sig: "valid-program-rejected", Size: size, Msg: fmt.Sprintf("%s: `spok gate` failed with status %d: %s", desc, r0.Exit, sandbox.Strip(r0.Stderr))}
		}
	}
	res := b.Run(cwd, env, runTimeout, append(append([]string{"--json"}, c.Flags...), request...)...)
	if res.TimedOut {
		return &rp.Fail{Sig: "harness", Msg: "spok timed out: " + res.Stderr}
	}
	if anyFail {
		for _, args := range [][]string{append([]string{"--json"}, request...), {"--vars"}, {"--show"}} {
			r := res
			if args[0] != "--json" {
				r = b.Run(cwd, env, runTimeout, args...)
			}
			if r.Exit == 0 {
				return &rp.Fail{Sig: "failing-exec-ignored", Size: size, Msg: fmt.Sprintf("%s: a variable is defined by an exec that exits non-zero, but `spok %s` exited 0", desc, strings.Join(args, " "))}
			}
		}
		if s != nil {
			s.Class("failing_exec")
		}
		return nil
	}
	if c.BadBraces && len(c.Vars) > 0 {
		// either the spokfile is refused, or the reference is replaced; never a run with "{{.NAME}}" left in a command
		if res.Exit == 0 {
			if rs, ok := parseJSON(res.Stdout); ok {
				for _, tr := range rs {
					for _, cr := range tr.cmds() {
						if strings.Contains(cr.Cmd, "{{."+c.Vars[0].Name+"}}") {
							return &rp.Fail{Sig: "reference-not-substituted", Size: size, Msg: fmt.Sprintf("%s: the command %q ran with the reference to %s still in it", desc, cr.Cmd, c.Vars[0].Name)}
						}
					}
				}
			}
		}
		if s != nil {
			s.Class("command_with_unreadable_braces")
		}
		return nil
	}
	if res.Exit != 0 {
		return &rp.Fail{Sig: "valid-program-rejected", Size: size, Msg: fmt.Sprintf("%s: `spok --json show` failed with status %d: %s", desc, res.Exit, sandbox.Strip(res.Stderr))}
	}
	results, ok := parseJSON(res.Stdout)
	wantTasks := len(request)
	if c.Gate {
		wantTasks++ // the gate task is part of the run (reported skipped)
	}
	if !ok || len(results) != wantTasks {
		return &rp.Fail{Sig: "json-unreadable", Size: size, Msg: fmt.Sprintf("%s: stdout is not one JSON document with %d task(s): %q", desc, len(request), res.Stdout)}
	}
	var showRes, earlyRes *taskResult
	for i := range results {
		switch results[i].Task {
		case "show":
			showRes = &results[i]
		case "early":
			earlyRes = &results[i]
		}
	}
	if showRes == nil || (c.Split > 0 && earlyRes == nil) {
		return &rp.Fail{Sig: "json-unreadable", Size: size, Msg: fmt.Sprintf("%s: report lacks a requested task: %q", desc, res.Stdout)}
	}
	if c.Split > 0 {
		// the task defined in the middle sees every variable defined before it
		ec := earlyRes.cmds()
		if len(ec) != 2*c.Split+1 {
			return &rp.Fail{Sig: "command-count", Size: size, Msg: fmt.Sprintf("%s: task early: expected %d command results, got %d", desc, 2*c.Split+1, len(ec))}
		}
		for i, v := range c.Vars[:c.Split] {
			w := want[v.Name]
			if ec[2*i].Cmd != "printf '%s' '"+w+"'" || (ec[2*i].Stdout != w && !strings.Contains(w, "\r\n")) {
				return &rp.Fail{Sig: "template-substitution", Size: size, Msg: fmt.Sprintf("%s: in task early (defined after %d variables) {{.%s}} should give %q; spok ran %q printing %q", desc, c.Split, v.Name, w, ec[2*i].Cmd, ec[2*i].Stdout)}
			}
			if ec[2*i+1].Stdout != w {
				return &rp.Fail{Sig: "environment-value", Size: size, Msg: fmt.Sprintf("%s: in task early $%s is %q, the spokfile defines %q", desc, v.Name, ec[2*i+1].Stdout, w)}
			}
		}
	}
	cmds := showRes.cmds()
	wantN := 2*len(c.Vars) + 1
	if len(c.Vars) >= 2 {
		wantN++
	}
	if len(cmds) != wantN {
		return &rp.Fail{Sig: "command-count", Size: size, Msg: fmt.Sprintf("%s: expected %d command results, got %d: %+v", desc, wantN, len(cmds), cmds)}
	}
	collide := false
	for i, v := range c.Vars {
		w := want[v.Name]
		tmpl, envc := cmds[2*i], cmds[2*i+1]
		if wantCmd := "printf '%s' '" + w + "'"; tmpl.Cmd != wantCmd {
			return &rp.Fail{Sig: "template-substitution", Size: size, Msg: fmt.Sprintf("%s: {{.%s}} should be replaced by %q giving command %q, spok ran %q", desc, v.Name, w, wantCmd, tmpl.Cmd)}
		}
		if tmpl.Stdout != w && !strings.Contains(w, "\r\n") {
			return &rp.Fail{Sig: "template-value-at-shell", Size: size, Msg: fmt.Sprintf("%s: printf '%%s' '{{.%s}}' printed %q, want %q", desc, v.Name, tmpl.Stdout, w)}
		}
		if wantCmd := fmt.Sprintf("printf '%%s' \"$%s\"", v.Name); envc.Cmd != wantCmd {
			return &rp.Fail{Sig: "command-text-changed", Size: size, Msg: fmt.Sprintf("%s: command text %q reached the shell as %q", desc, wantCmd, envc.Cmd)}
		}
		if envc.Stdout != w {
			src := ""
			if a, ok := c.Ambient[v.Name]; ok {
				src += fmt.Sprintf(" (ambient %s=%q)", v.Name, a)
			}
			if d, ok := c.DotEnv[v.Name]; ok {
				src += fmt.Sprintf(" (.env %s=%q)", v.Name, d)
			}
			return &rp.Fail{Sig: "environment-value", Size: size, Msg: fmt.Sprintf("%s: $%s in the command's environment is %q, the spokfile defines %q%s", desc, v.Name, envc.Stdout, w, src)}
		}
		if a, ok := c.Ambient[v.Name]; ok && a != w {
			collide = true
		}
		if d, ok := c.DotEnv[v.Name]; ok && d != w {
			collide = true
		}
		if v.Name == "HOME" || v.Name == "LANG" {
			collide = true
		}
	}
	if len(c.Vars) >= 2 {
		a, bn := c.Vars[0].Name, c.Vars[1].Name
		wantCmd := fmt.Sprintf("echo 'pre %s mid %s' post $UNSET_VAR 'lit %s'", want[a], want[bn], want[a])
		if got := cmds[2*len(c.Vars)].Cmd; got != wantCmd {
			return &rp.Fail{Sig: "template-substitution", Size: size, Msg: fmt.Sprintf("%s: mixed command should reach the shell as %q, spok ran %q", desc, wantCmd, got)}
		}
	}
	// --vars lists every variable with its value (compared for values without blanks)
	vres := b.Run(cwd, env, runTimeout, "--vars")
	if vres.Exit != 0 {
		return &rp.Fail{Sig: "valid-program-rejected", Size: size, Msg: fmt.Sprintf("%s: `spok --vars` failed: %s", desc, sandbox.Strip(vres.Stderr))}
	}
	rows := map[string]string{}
	lines := strings.Split(sandbox.Strip(vres.Stdout), "\n")
	for _, l := range lines {
		f := strings.Fields(l)
		if len(f) == 2 {
			rows[f[0]] = f[1]
		} else if len(f) == 1 {
			rows[f[0]] = ""
		}
	}
	for _, v := range c.Vars {
		w := want[v.Name]
		if strings.ContainsAny(w, " \t\n") {
			continue
		}
		if got, ok := rows[v.Name]; !ok || got != w {
			return &rp.Fail{Sig: "vars-listing", Size: size, Msg: fmt.Sprintf("%s: `spok --vars` should list %s with value %q; output:\n%s", desc, v.Name, w, sandbox.Strip(vres.Stdout))}
		}
	}
	if s != nil {
		if collide {
			s.Class("collides_with_ambient_or_dotenv")
			s.NonTrivial(src + fmt.Sprint(c.Ambient, c.DotEnv, c.Nested))
		}
		for _, v := range c.Vars {
			s.Class("var_" + v.Kind)
		}
		if c.Split > 0 {
			s.Class("task_between_variable_definitions")
		}
		if c.NamedOut != "" {
			s.Class("variable_is_also_a_named_output")
		}
	}
	return nil
}
