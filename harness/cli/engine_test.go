package cli

import (
	"encoding/json"
	"fmt"
	"os"
	"path/filepath"
	"testing"
	"time"

	"verif/ev"
	"verif/rp"
	"verif/sandbox"
)

func id() string { return os.Getenv("VERIF_ID") }

var rules = map[string]string{
	"C09": "generated spokfiles of 1-4 tasks x 1-4 commands, each command appending an opaque marker to a side-effect log and exiting with 0 or a status from {1,2,3,42,126,127,255}, failing commands at any position in requested tasks or dependencies, ~70% of tasks with a file dependency; run under one of {plain, --quiet, --json, --force, --quiet --force, --json --force}, then a second plain unforced run. Oracle: the set F of tasks with an executed failing command is read from the log; F non-empty => exit != 0 and stderr names a task of F; second run never reports a task of F skipped, never succeeds as a whole, and re-executes a sole failing task. Non-trivial: a failure observed and (several tasks, or the failing command is not the first, or a non-plain flag); distinct by (spokfile, arguments)",
	"C20": "generated spokfiles (1-5 tasks incl. 'default' with probability 1/3, 0-4 commands each appending a marker to a log and printing known payloads to stdout and stderr, 0-5 variables used through {{.X}}, docstrings or none, file dependencies so that repeated runs skip) x sequences of 1-5 actions from {--json tasks, --quiet tasks, --show, --vars, no arguments}; oracle: the log is the ground truth of execution; --json is one document listing exactly the tasks of the run in execution order with skipped flags, interpolated command text, exact stdout/stderr/status; --quiet stdout empty; --show one sorted row per task with docstring; --vars one row per variable; no arguments = default task or the listing. Non-trivial: >= 2 tasks with commands, or a report containing a skipped task; distinct by (spokfile, actions)",
	"C19": "random project trees (nested directories, with/without .gitignore, .env, an existing .spok/) x spokfiles that are valid (generated structure in a random layout, side-effect-free commands), lexer errors, parser errors, load errors (undefined builtin, duplicate task, failing exec, bad template) or absent x every subset of {--show,--vars,--fmt,--init,--force,--quiet,--json,--debug} plus 0-2 task names (defined or not), from the project root or a nested directory; oracle: snapshot of the sandbox HOME before/after — changed paths must lie in the set the action permits (.spok next to the spokfile; --init: new cwd/spokfile and appended cwd/.gitignore, never over an existing spokfile; --fmt: the spokfile only, only when it parses and loads, and then equal to the formatter's output). Non-trivial: --fmt or --init given, or the spokfile is invalid/absent, or cwd is nested; distinct by case",
	"C12": "random project trees (files inside and outside declared outputs, nested directories, pre-existing and missing outputs, an optional existing .spok/, bystander files beside and above the project) x spokfiles declaring up to 5 outputs of each kind: literal (incl. '', '.', './', '..', '../..', 'spokfile', directories, missing paths), named by variables (strings and join(...), incl. '', '.', join('..')), globs (matching several files, nested, nothing); with probability 1/4 a task named clean. `spok --clean` runs in the uid-dropped sandbox; oracle: whole-sandbox snapshot before/after — frame condition, protected set (project dir, ancestors, spokfile), completeness when spok exits 0. Non-trivial: a designated path exists before and a non-designated file exists in the project; distinct by (tree, spokfile)",
	"C13": "generated variable sets (string values over printable ASCII without quotes incl. blanks, $, {, }, {{, #, backslash; exec(printf ...) with padded / multi-line / empty output and failing exec; join of 0-4 segments incl. '.', '..', '', absolute) with names that collide with the ambient environment, a generated .env, both or neither; one task printing each variable through {{.NAME}} and through $NAME, run with --json from the project root or a nested directory in the sandbox; oracle: direct textual substitution, an independent path normaliser, the harness's own knowledge of what printf prints. Non-trivial: a variable whose name is also set, differently, in the ambient environment or .env and is read through $NAME; distinct by (spokfile, environment, cwd)",
	"C17": "every directory chain of depth <= 3 (quick) / 4 (thorough) where each level independently holds {nothing, an entry sorting before and/or after 'spokfile', a regular spokfile (alone or after an earlier entry), a directory named spokfile (empty or holding a regular spokfile)} and child directories named 'd' or 't' x every start level x stop in {each level, an unrelated directory}; file.Find is called in a watchdogged shard (10 s stall limit, normal < 1 ms) and compared with an Lstat walk; plus `spok --show` from nested directories in the sandbox. Non-trivial: the answer is at another level than start, or there is none; distinct by triple",
}

func workBase(t testing.TB) string {
	base := os.Getenv("VERIF_WORK")
	if base == "" {
		base = os.TempDir()
	}
	return base
}

func newBox(t testing.TB) *sandbox.Box {
	bin := os.Getenv("VERIF_SPOK")
	if bin == "" {
		t.Fatal("VERIF_SPOK not set")
	}
	b, err := sandbox.New(workBase(t), bin)
	if err != nil {
		t.Fatal(err)
	}
	t.Cleanup(b.Close)
	// the private copy must be executable where the scratch space lives (tmpfs may be noexec)
	if r := b.Run(b.Proj, nil, 20*time.Second, "--version"); r.Exit == -1 {
		b.Spok = bin
	}
	return b
}

func TestPlan(t *testing.T) {
	p := ev.Plan{Property: id(), Level: "exploration", Rule: rules[id()]}
	p.Assumptions = []string{
		"checks run as root so that spok can be executed as uid 65534 inside a sandbox tree; nothing outside the sandbox is writable for it",
	}
	binShards := func(test string, quickN, quickChecks, thorN, thorChecks int) {
		n, c := quickN, quickChecks
		if ev.Thorough() {
			n, c = thorN, thorChecks
		}
		sh := ev.RapidShards("bin", test, n, c, nil)
		for i := range sh {
			sh[i].TimeoutS = 3600
		}
		p.Shards = append(p.Shards, sh...)
	}
	switch id() {
	case "C13":
		binShards("^TestVars$", 16, 150, 16, 1300)
	case "C09":
		binShards("^TestFail$", 16, 60, 16, 1300)
	case "C20":
		binShards("^TestReport$", 16, 40, 16, 1000)
	case "C19":
		binShards("^TestWrite$", 16, 80, 16, 1500)
	case "C12":
		binShards("^TestClean$", 16, 60, 16, 1300)
	case "C17":
		p.CrashIsViolation = true
		p.ReplayKindCrash = "find-inflight"
		p.Exhaustive = true
		total := findTotal()
		sh := ev.RangeShards("enum", "^TestFindEnum$", total, total/32+1, nil)
		for i := range sh {
			sh[i].TimeoutS = 1200
		}
		p.Shards = append(p.Shards, sh...)
	}
	if err := ev.WritePlan(p); err != nil {
		t.Fatal(err)
	}
}

func findBase(t testing.TB) string {
	dir, err := os.MkdirTemp(workBase(t), "find-")
	if err != nil {
		t.Fatal(err)
	}
	t.Cleanup(func() { os.RemoveAll(dir) })
	// precondition: no ancestor of the base holds a spokfile
	for d := dir; ; d = filepath.Dir(d) {
		if st, err := os.Lstat(filepath.Join(d, "spokfile")); err == nil && !st.IsDir() {
			t.Fatalf("harness precondition: %s exists above the scratch directory", filepath.Join(d, "spokfile"))
		}
		if d == filepath.Dir(d) {
			break
		}
	}
	return filepath.Join(dir, "base")
}

func TestFindEnum(t *testing.T) {
	s := ev.Open(t, "C17")
	s.Watchdog(10*time.Second, 4<<30)
	defer s.Done()
	base := findBase(t)
	lo, hi := ev.RangeFromEnv()
	seen := map[string]bool{}
	lastTree := ""
	for idx := lo; idx < hi; idx++ {
		c := findCase(idx)
		if k := c.treeKey(); k != lastTree {
			if err := c.build(base); err != nil {
				t.Fatal(err)
			}
			lastTree = k
		}
		data, _ := json.Marshal(c)
		s.Progress(idx, data)
		s.Tick()
		s.Eval()
		if idx%7919 == 0 {
			s.Sample(c)
		}
		if f := execFind(s, base, c); f != nil {
			if s.IsKnown(f.Sig) {
				s.Known(f.Sig, c)
				continue
			}
			if !seen[f.Sig] {
				seen[f.Sig] = true
				s.Violation("find", f.Sig, f.Msg, f.Size, c)
			}
		}
	}
	s.Extra("enum_max_depth", findMaxDepth())
	if s.Failed() {
		t.Fatal("violations recorded")
	}
}

// TestReplay re-executes one saved case.
func TestReplay(t *testing.T) {
	data, err := os.ReadFile(os.Getenv("VERIF_REPLAY"))
	if err != nil {
		t.Skip("no replay file")
	}
	var v ev.Violation
	if err := json.Unmarshal(data, &v); err != nil {
		t.Fatalf("bad replay file: %v", err)
	}
	raw := v.Case
	if len(v.Kind) > 9 && v.Kind[len(v.Kind)-9:] == "-inflight" {
		var w struct {
			Text string `json:"payload_text"`
		}
		if err := json.Unmarshal(v.Case, &w); err != nil {
			t.Fatal(err)
		}
		raw = []byte(w.Text)
	}
	var f *rp.Fail
	switch v.Kind {
	case "find", "find-inflight":
		var c FindCase
		if err := json.Unmarshal(raw, &c); err != nil {
			t.Fatal(err)
		}
		base := findBase(t)
		if err := c.build(base); err != nil {
			t.Fatal(err)
		}
		f = execFind(nil, base, c)
	default:
		f = replayOther(t, v, raw)
	}
	if f != nil {
		t.Fatalf("%s [%s]", f.Msg, f.Sig)
	}
}

func replayOther(t *testing.T, v ev.Violation, raw []byte) *rp.Fail {
	switch v.Kind {
	case "fail":
		var c FailCase
		if err := json.Unmarshal(raw, &c); err != nil {
			t.Fatal(err)
		}
		return execFail(nil, newBox(t), c)
	case "report":
		var c ReportCase
		if err := json.Unmarshal(raw, &c); err != nil {
			t.Fatal(err)
		}
		return execReport(nil, newBox(t), c)
	case "write":
		var c WriteCase
		if err := json.Unmarshal(raw, &c); err != nil {
			t.Fatal(err)
		}
		return execWrite(nil, newBox(t), c)
	case "clean":
		var c CleanCase
		if err := json.Unmarshal(raw, &c); err != nil {
			t.Fatal(err)
		}
		return execClean(nil, newBox(t), c)
	case "vars":
		var c VarsCase
		if err := json.Unmarshal(raw, &c); err != nil {
			t.Fatal(err)
		}
		return execVars(nil, newBox(t), c)
	}
	t.Fatalf("unknown replay kind %q", v.Kind)
	return nil
}

func TestFail(t *testing.T) {
	s := ev.Open(t, "C09")
	b := newBox(t)
	rp.Check(t, s, "fail", genFail, func(c FailCase) *rp.Fail {
		if s.WantSample() {
			s.Sample(map[string]any{"spokfile": c.source(), "request": c.Request, "flags": c.Flags})
		}
		return execFail(s, b, c)
	})
}

func TestReport(t *testing.T) {
	s := ev.Open(t, "C20")
	b := newBox(t)
	rp.Check(t, s, "report", genReport, func(c ReportCase) *rp.Fail {
		if s.WantSample() {
			s.Sample(map[string]any{"spokfile": c.source(), "actions": c.Actions})
		}
		return execReport(s, b, c)
	})
}

func TestWrite(t *testing.T) {
	s := ev.Open(t, "C19")
	b := newBox(t)
	rp.Check(t, s, "write", genWrite, func(c WriteCase) *rp.Fail {
		if s.WantSample() {
			s.Sample(map[string]any{"spokfile_class": c.Class, "spokfile": c.Src, "flags": c.Flags, "tasks": c.Tasks, "nested_cwd": c.Nested, "tree": c.Tree})
		}
		return execWrite(s, b, c)
	})
}

func TestClean(t *testing.T) {
	s := ev.Open(t, "C12")
	b := newBox(t)
	rp.Check(t, s, "clean", genClean, func(c CleanCase) *rp.Fail {
		if s.WantSample() {
			s.Sample(map[string]any{"spokfile": c.source(), "tree": c.Tree})
		}
		return execClean(s, b, c)
	})
}

func TestVars(t *testing.T) {
	s := ev.Open(t, "C13")
	b := newBox(t)
	rp.Check(t, s, "vars", genVars, func(c VarsCase) *rp.Fail {
		if s.WantSample() {
			src, _ := c.source()
			s.Sample(map[string]any{"spokfile": src, "ambient": c.Ambient, "dotenv": c.DotEnv, "nested": c.Nested})
		}
		return execVars(s, b, c)
	})
}

var _ = fmt.Sprint
