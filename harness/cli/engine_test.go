package cli

import (
	"encoding/json"
	"fmt"
	"github.com/FollowTheProcess/spok/file"
	"github.com/FollowTheProcess/spok/parser"
	"os"
	"path/filepath"
	"regexp"
	"strings"
	"syscall"
	"testing"
	"time"

	"pgregory.net/rapid"

	"verif/ev"
	"verif/gen"
	"verif/rp"
	"verif/sandbox"
)

func id() string { return os.Getenv("VERIF_ID") }

var rules = map[string]string{
	"C09": "generated spokfiles of 1-4 tasks x 1-4 commands, each command appending an opaque marker to a side-effect log and exiting with 0 or a status from {1,2,3,42,126,127,255}, failing commands at any position in requested tasks or dependencies, ~70% of tasks with a file dependency; run under one of {plain, --quiet, --json, --force, --quiet --force, --json --force}, then a second plain unforced run. Oracle: the set F of tasks with an executed failing command is read from the log; F non-empty => exit != 0 and stderr names a task of F; second run never reports a task of F skipped, never succeeds as a whole, and re-executes a sole failing task. Non-trivial: a failure observed and (several tasks, or the failing command is not the first, or a non-plain flag); distinct by (spokfile, arguments)",
	"C20": "generated spokfiles (1-5 tasks incl. 'default' with probability 1/3, 0-4 commands each appending a marker to a log and printing known payloads to stdout and stderr, 0-5 variables used through {{.X}}, docstrings or none, file dependencies so that repeated runs skip) x sequences of 1-5 actions from {--json tasks, --quiet tasks, --show, --vars, no arguments}; oracle: the log is the ground truth of execution; --json is one document listing exactly the tasks of the run in execution order with skipped flags, interpolated command text, exact stdout/stderr/status; --quiet stdout empty; --show one sorted row per task with docstring; --vars one row per variable; no arguments = default task or the listing. Non-trivial: >= 2 tasks with commands, or a report containing a skipped task; distinct by (spokfile, actions)",
	"C19": "random project trees (nested directories, with/without .gitignore, .env, an existing .spok/) x spokfiles that are valid (generated structure in a random layout, side-effect-free commands), lexer errors, parser errors, load errors (undefined builtin, duplicate task, failing exec, bad template) or absent x every subset of {--show,--vars,--fmt,--init,--force,--quiet,--json,--debug} plus 0-2 task names (defined or not), from the project root or a nested directory; oracle: snapshot of the sandbox HOME before/after — changed paths must lie in the set the action permits (.spok next to the spokfile; --init: new cwd/spokfile and appended cwd/.gitignore, never over an existing spokfile; --fmt: the spokfile only, only when it parses and loads, and then equal to the formatter's output). Non-trivial: --fmt or --init given, or the spokfile is invalid/absent, or cwd is nested; distinct by case",
	"C10": "binary-level histories over the C01 universe (1-3 tasks with literal / glob / task dependencies; write, revert, delete, cache removal, runs with --force or an injected failing command) with faults: kill -9 of the spok process from inside any task position of the run order (control files read by the task body), and truncation of the cache file to a prefix (0, 1, fractions, len-1; every 7th (quick) / every (thorough) byte length for two fixed programs, each followed by six continuations of edits/reverts and an unforced run). The side-effect log is the ground truth (a task completed iff its end marker was logged). Oracle: no task is skipped unless its dependency snapshot equals the one of its last logged completion; after a fault a run behaves normally or fails with an error that mentions the cache; a Go panic is a violation. Non-trivial: a fault followed by a file action and a run in which some task's inputs differ from its last success; distinct by history",
	"C12": "random project trees (files inside and outside declared outputs, nested directories, pre-existing and missing outputs, an optional existing .spok/, bystander files beside and above the project) x spokfiles declaring up to 5 outputs of each kind: literal (incl. '', '.', './', '..', '../..', 'spokfile', directories, missing paths), named by variables (strings and join(...), incl. '', '.', join('..')), globs (matching several files, nested, nothing); with probability 1/4 a task named clean. `spok --clean` runs in the uid-dropped sandbox; oracle: whole-sandbox snapshot before/after — frame condition, protected set (project dir, ancestors, spokfile), completeness when spok exits 0. Non-trivial: a designated path exists before and a non-designated file exists in the project; distinct by (tree, spokfile)",
	"C13": "generated variable sets (string values over printable ASCII without quotes incl. blanks, $, {, }, {{, #, backslash; exec(printf ...) with padded / multi-line / empty output and failing exec; join of 0-4 segments incl. '.', '..', '', absolute) with names that collide with the ambient environment, a generated .env, both or neither; one task printing each variable through {{.NAME}} and through $NAME, run with --json from the project root or a nested directory in the sandbox; oracle: direct textual substitution, an independent path normaliser, the harness's own knowledge of what printf prints. Non-trivial: a variable whose name is also set, differently, in the ambient environment or .env and is read through $NAME; distinct by (spokfile, environment, cwd)",
	"C17": "every directory chain of depth <= 3 (quick) / 4 (thorough) where each level independently holds {nothing, an entry sorting before and/or after 'spokfile', a regular spokfile (alone or after an earlier entry), a directory named spokfile (empty or holding a regular spokfile)} and child directories named 'd' or 't' x every start level x stop in {each level, an unrelated directory}; file.Find is called in a watchdogged shard (10 s stall limit, normal < 1 ms) and compared with an Lstat walk; plus `spok --show` from nested directories in the sandbox. Non-trivial: the answer is at another level than start, or there is none; distinct by triple",
}

func workBase(t testing.TB) string {
	base := os.Getenv("VERIF_WORK")
	if base == "" {
		base = os.TempDir()
	}
	return base
}

func newBox(t testing.TB) *sandbox.Box {
	bin := os.Getenv("VERIF_SPOK")
	if bin == "" {
		t.Fatal("VERIF_SPOK not set")
	}
	b, err := sandbox.New(workBase(t), bin)
	if err != nil {
		t.Fatal(err)
	}
	t.Cleanup(b.Close)
	// the private copy must be executable where the scratch space lives (tmpfs may be noexec)
	if r := b.Run(b.Proj, nil, 20*time.Second, "--version"); r.Exit == -1 {
		b.Spok = bin
	}
	return b
}

func TestPlan(t *testing.T) {
	p := ev.Plan{Property: id(), Level: "exploration", Rule: rules[id()]}
	p.Assumptions = []string{
		"checks run as root so that spok can be executed as uid 65534 inside a sandbox tree; nothing outside the sandbox is writable for it",
	}
	prefix := "bin"
	binShards := func(test string, quickN, quickChecks, thorN, thorChecks int) {
		n, c := quickN, quickChecks
		if ev.Thorough() {
			n, c = thorN, thorChecks
		}
		sh := ev.RapidShards(prefix, test, n, c, nil)
		for i := range sh {
			sh[i].TimeoutS = 900
			if ev.Thorough() {
				sh[i].TimeoutS = 3600
			}
		}
		p.Shards = append(p.Shards, sh...)
	}
	switch id() {
	case "C07", "C11", "C15":
		// the binary leg of the formatter properties: `spok --fmt` on generated files
		p.Rule = "binary leg: generated spokfiles (random layouts, comments in every position, side-effect-free loading) formatted in place by `spok --fmt` in the sandbox; the file afterwards is parsed in-process and judged by the same projection as the in-process leg (C11: a second --fmt leaves it byte-identical). Non-trivial: the file changed; distinct by source"
		binShards("^TestFmtBinary$", 8, 40, 32, 1500)
		p.Shards = append(p.Shards, ev.ShardSpec{Name: "fmtboundary-0", Test: "^TestFmtBoundary$", TimeoutS: 900})
	case "C06":
		p.Rule = "binary leg: generated spokfiles (random layouts, comments, lines around 64 KiB) are handed to the real CLI as a file; what `spok --fmt` writes back is the rendering of the tree the CLI built, and must equal the rendering of the tree the parser builds from the same text in-process (so reading the file — encoding, line ends, long lines — loses or alters nothing). Non-trivial: the file changed; distinct by source"
		binShards("^TestFmtBinary$", 8, 40, 32, 1500)
		p.Shards = append(p.Shards, ev.ShardSpec{Name: "fmtboundary-0", Test: "^TestFmtBoundary$", TimeoutS: 900})
		p.Shards = append(p.Shards, ev.ShardSpec{Name: "readfaults-0", Test: "^TestReadFaults$", TimeoutS: 900})
	case "C04":
		p.Rule = "binary leg: one task with literal and glob dependencies; the digest spok records in .spok/cache.json after a run from a fresh cache must be the same however spok is pointed at the project (from the project, a nested directory, --spokfile relative / absolute from the project, its parent, a sibling directory; project directories with odd names), must change when a dependency is edited, must not change when another file is, and must return when the edit is undone"
		binShards("^TestDigestBinary$", 8, 30, 32, 800)
	case "C18":
		p.Level = "fault_enumeration"
		p.Rule = "binary leg: a task whose literal dependencies are regular / empty / directory / missing / dangling link / link / unreadable (mode 0) files in every mixture of up to 6, run through the CLI as an unprivileged user under {plain, --force, --json, --quiet}: spok never dies (signal, panic); with an unopenable dependency and no --force it stops with a message, exits non-zero and does not run the task; otherwise it succeeds"
		binShards("^TestHashBinary$", 8, 50, 32, 1500)
	case "C01", "C02":
		// the binary leg of the cache properties: incremental runs through the real CLI
		p.Rule = "binary leg: programs of 1-3 tasks (no / literal / glob file dependency, task dependencies, selected by name or as the default task) run 2-6 times through the CLI under {plain, --json, --quiet, --debug, --json --quiet} from the project root or a nested directory, with edits of dependency files in between; the side-effect log must show a task running exactly when it has no file dependency, never ran, or a file it depends on was edited since its last run"
		binShards("^TestSkipBinary$", 8, 40, 32, 1500)
		p.Shards = append(p.Shards, ev.ShardSpec{Name: "skiptemplates-0", Test: "^TestSkipTemplates$", TimeoutS: 900})
	case "C08":
		// the binary leg of C08: the CLI reports exactly the parser's located error for the file's text
		p.Rule = "binary leg: permissive-grammar texts (with blank / whitespace-only lines added in front or behind) that do not parse are written as a spokfile; `spok --show` and `spok --fmt` must terminate, exit non-zero without a Go panic and print the very error the parser gives for that text (same line number, same quoted line)"
		binShards("^TestErrBinary$", 8, 60, 32, 2000)
	case "C03":
		// the binary leg of C03: the selected task comes from the command line, from the default task or from `--clean`
		p.Rule = "binary leg: graphs on 1-4 tasks (cyclic and acyclic, optional undefined dependency) where the first task is selected by name, implicitly as the default task (bare `spok`) or as the user-defined clean task (`spok --clean`), with and without --force/--json/--quiet; the side-effect log must show the selected task's closure exactly once, dependencies first, or an error and no command at all"
		binShards("^TestGraphBinary$", 8, 50, 32, 2000)
		p.Shards = append(p.Shards, ev.ShardSpec{Name: "graphtemplates-0", Test: "^TestGraphTemplates$", TimeoutS: 900})
	case "C05":
		// output globs through the CLI: --clean removes exactly the files the pattern denotes
		p.Rule = "binary leg: project trees x spokfiles whose outputs are glob patterns only (incl. patterns whose matches are string-prefix siblings such as bin/app and bin/app.sha256); `spok --clean` must remove exactly the files the reference matcher says each pattern denotes"
		binShards("^TestCleanGlobs$", 8, 40, 32, 1500)
		// dependency globs through the CLI: which edits make a task run again
		p.Rule += "; and the incremental-run leg of C01/C02 (programs with glob dependencies, spokfile optionally a symbolic link into another directory, optionally run from elsewhere with --spokfile, files of the same names edited outside the project): a task runs again exactly when a file its pattern denotes was edited"
		prefix = "binskip"
		binShards("^TestSkipBinary$", 8, 40, 32, 1000)
		p.Shards = append(p.Shards, ev.ShardSpec{Name: "skiptemplates-0", Test: "^TestSkipTemplates$", TimeoutS: 900})
	case "C14":
		// the binary leg of C14: --force with explicitly and implicitly selected tasks (default task, clean task)
		p.Rule = "binary leg: programs of 1-3 tasks (file dependencies, task dependencies) run once so that every task is cached, then run with --force selected by name, through the default task (`spok --force`) or through a user-defined clean task (`spok --clean --force`), optionally with --json/--quiet; every task of the closure must execute again and none be reported skipped"
		binShards("^TestForceBinary$", 8, 40, 32, 1500)
	case "C13":
		binShards("^TestVars$", 16, 150, 32, 3000)
		p.Shards = append(p.Shards, ev.ShardSpec{Name: "inprocess-0", Test: "^TestVarsInProcess$", TimeoutS: 600})
	case "C09":
		binShards("^TestFail$", 16, 60, 32, 4000)
		p.Shards = append(p.Shards, ev.ShardSpec{Name: "failtemplates-0", Test: "^TestFailTemplates$", TimeoutS: 900})
	case "C20":
		binShards("^TestReport$", 16, 40, 32, 3000)
	case "C19":
		binShards("^TestWrite$", 16, 80, 32, 3000)
		p.Shards = append(p.Shards, ev.ShardSpec{Name: "writetemplates-0", Test: "^TestWriteTemplates$", TimeoutS: 900})
	case "C10":
		p.Level = "fault_enumeration"
		binShards("^TestKill$", 16, 25, 32, 1200)
		p.Shards = append(p.Shards, ev.ShardSpec{Name: "prefixes-0", Test: "^TestKillPrefixes$", TimeoutS: 3600})
		sc := ev.RangeShards("syscalls", "^TestKillSyscalls$", 48, 1, nil)
		for i := range sc {
			sc[i].TimeoutS = 3600
		}
		p.Shards = append(p.Shards, sc...)
	case "C12":
		binShards("^TestClean$", 16, 60, 32, 3000)
		p.Shards = append(p.Shards, ev.ShardSpec{Name: "cleantemplates-0", Test: "^TestCleanTemplates$", TimeoutS: 900})
	case "C17":
		p.CrashIsViolation = true
		p.ReplayKindCrash = "find-inflight"
		p.Exhaustive = true
		total := findTotal()
		sh := ev.RangeShards("enum", "^TestFindEnum$", total, total/32+1, nil)
		for i := range sh {
			sh[i].TimeoutS = 1200
		}
		p.Shards = append(p.Shards, sh...)
		nb, cb := 8, 40
		if ev.Thorough() {
			nb, cb = 32, 1500
		}
		bs := ev.RapidShards("binary", "^TestFindBinary$", nb, cb, nil)
		p.Shards = append(p.Shards, bs...)
		p.Shards = append(p.Shards, ev.ShardSpec{Name: "unprivileged-0", Test: "^TestFindUnprivileged$", AsNobody: true, TimeoutS: 900})
		p.Shards = append(p.Shards, ev.ShardSpec{Name: "relative-0", Test: "^TestFindRelative$", TimeoutS: 600})
		p.Shards = append(p.Shards, ev.ShardSpec{Name: "deep-0", Test: "^TestFindDeep$", TimeoutS: 1200})
		p.Shards = append(p.Shards, ev.ShardSpec{Name: "names-0", Test: "^TestFindNames$", TimeoutS: 600})
		p.Shards = append(p.Shards, ev.ShardSpec{Name: "history-0", Test: "^TestFindHistory$", TimeoutS: 600})
		p.Shards = append(p.Shards, ev.ShardSpec{Name: "crowded-0", Test: "^TestFindCrowded$", TimeoutS: 900})
	}
	if err := ev.WritePlan(p); err != nil {
		t.Fatal(err)
	}
}

func findBase(t testing.TB) string {
	dir, err := os.MkdirTemp(workBase(t), "find-")
	if err != nil {
		t.Fatal(err)
	}
	t.Cleanup(func() { os.RemoveAll(dir) })
	// precondition: no ancestor of the base holds a spokfile
	for d := dir; ; d = filepath.Dir(d) {
		if st, err := os.Lstat(filepath.Join(d, "spokfile")); err == nil && !st.IsDir() {
			t.Fatalf("harness precondition: %s exists above the scratch directory", filepath.Join(d, "spokfile"))
		}
		if d == filepath.Dir(d) {
			break
		}
	}
	return filepath.Join(dir, "base")
}

func TestFindEnum(t *testing.T) {
	s := ev.Open(t, "C17")
	s.Watchdog(10*time.Second, 4<<30)
	defer s.Done()
	base := findBase(t)
	lo, hi := ev.RangeFromEnv()
	seen := map[string]bool{}
	lastTree := ""
	for idx := lo; idx < hi; idx++ {
		c := findCase(idx)
		if k := c.treeKey(); k != lastTree {
			if err := c.build(base); err != nil {
				t.Fatal(err)
			}
			lastTree = k
		}
		data, _ := json.Marshal(c)
		s.Progress(idx, data)
		s.Tick()
		s.Eval()
		if idx%7919 == 0 {
			s.Sample(c)
		}
		if f := execFind(s, base, c); f != nil {
			if s.IsKnown(f.Sig) {
				s.Known(f.Sig, c)
				continue
			}
			if !seen[f.Sig] {
				seen[f.Sig] = true
				s.Violation("find", f.Sig, f.Msg, f.Size, c)
			}
		}
	}
	s.Extra("enum_max_depth", findMaxDepth())
	if s.Failed() {
		t.Fatal("violations recorded")
	}
}

// PermCase: a chain of four directories, each with or without a spokfile and with a mode, searched by
// an unprivileged process (root ignores modes).
type PermCase struct {
	Spok  []bool `json:"spokfile"` // per level
	Modes []int  `json:"modes"`    // per level: 0755, 0311 (search only), 0000
	Start int    `json:"start"`
	Stop  int    `json:"stop"` // level, -1 = unrelated
}

func execFindPerm(base string, c PermCase) *rp.Fail {
	_ = filepath.WalkDir(base, func(p string, d os.DirEntry, err error) error {
		if err == nil && d.IsDir() {
			_ = os.Chmod(p, 0o755)
		}
		return nil
	})
	_ = os.RemoveAll(base)
	dirs := []string{filepath.Join(base, "L")}
	for i := 1; i < len(c.Spok); i++ {
		dirs = append(dirs, filepath.Join(dirs[i-1], fmt.Sprintf("d%d", i)))
	}
	if err := os.MkdirAll(dirs[len(dirs)-1], 0o755); err != nil {
		return &rp.Fail{Sig: "harness", Msg: err.Error()}
	}
	_ = os.MkdirAll(filepath.Join(base, "unrelated"), 0o755)
	for i, d := range dirs {
		if c.Spok[i] {
			if err := os.WriteFile(filepath.Join(d, "spokfile"), []byte("# x\n"), 0o644); err != nil {
				return &rp.Fail{Sig: "harness", Msg: err.Error()}
			}
		}
	}
	for i := len(dirs) - 1; i >= 0; i-- {
		_ = os.Chmod(dirs[i], os.FileMode(c.Modes[i]))
	}
	defer func() {
		for i := range dirs {
			_ = os.Chmod(dirs[i], 0o755)
		}
	}()
	stop := filepath.Join(base, "unrelated")
	if c.Stop >= 0 {
		stop = dirs[c.Stop]
	}
	got, err := file.Find(nopLogger{}, dirs[c.Start], stop)
	lowest := 0
	if c.Stop >= 0 && c.Stop <= c.Start {
		lowest = c.Stop
	}
	desc := fmt.Sprintf("chain of %d directories, spokfile at levels %v, modes %o, start level %d, stop level %d, searched as uid %d", len(dirs), c.Spok, c.Modes, c.Start, c.Stop, os.Geteuid())
	// the nearest spokfile by construction, and whether every directory up to it can be listed
	nearest, clear := -1, true
	for l := c.Start; l >= lowest; l-- {
		// a directory can be listed when it is readable and every directory above it can be searched
		listable := c.Modes[l]&0o400 != 0
		for a := 0; a < l; a++ {
			listable = listable && c.Modes[a]&0o100 != 0
		}
		if !listable {
			clear = false
		}
		if c.Spok[l] {
			nearest = l
			break
		}
	}
	size := len(dirs) + c.Start
	if err == nil {
		if nearest < 0 || got != filepath.Join(dirs[nearest], "spokfile") {
			if c.Stop < 0 || c.Stop > c.Start {
				return nil // start is not below stop: only termination is demanded there (see execFind)
			}
			return &rp.Fail{Sig: "found-non-regular-file", Size: size, Msg: fmt.Sprintf("%s: Find returned %q without an error; the nearest spokfile is at level %d (-1 = none)", desc, got, nearest)}
		}
		return nil
	}
	if nearest >= 0 && clear {
		return &rp.Fail{Sig: "spokfile-missed", Size: size, Msg: fmt.Sprintf("%s: every directory up to level %d can be listed and holds the nearest spokfile there, but Find reported %v", desc, nearest, err)}
	}
	return nil
}

// TestFindUnprivileged: the search run by a user without special rights over chains in which directories
// cannot be listed (mode 0311) or not even entered (mode 0).
func TestFindUnprivileged(t *testing.T) {
	s := ev.Open(t, "C17")
	if os.Geteuid() == 0 {
		s.Note("running as root: directory modes have no effect, nothing checked")
		s.Eval()
		return
	}
	s.Watchdog(10*time.Second, 4<<30)
	defer s.Done()
	base := filepath.Join(findBase(t), "perm")
	modes := []int{0o755, 0o311, 0, 0o444} // 0444: may be listed, not entered (nothing in it can be examined)
	seen := map[string]bool{}
	const depth = 3
	var idx uint64
	for sp := 0; sp < 1<<depth; sp++ {
		for m := 0; m < 64; m++ {
			for start := 0; start < depth; start++ {
				for stop := -1; stop <= start; stop++ {
					c := PermCase{Start: start, Stop: stop}
					mm := m
					for l := 0; l < depth; l++ {
						c.Spok = append(c.Spok, sp&(1<<l) != 0)
						c.Modes = append(c.Modes, modes[mm%4])
						mm /= 4
					}
					idx++
					data, _ := json.Marshal(c)
					s.Progress(idx, data)
					s.Tick()
					s.Eval()
					s.Class("chain_with_directory_modes")
					if idx%211 == 0 {
						s.Sample(c)
					}
					nontrivial := false
					for _, md := range c.Modes {
						nontrivial = nontrivial || md != 0o755
					}
					if nontrivial {
						s.NonTrivial("perm" + string(data))
					}
					if f := execFindPerm(base, c); f != nil && !seen[f.Sig] {
						seen[f.Sig] = true
						s.Violation("unpriv-find", f.Sig, f.Msg, f.Size, c)
					}
				}
			}
		}
	}
	if s.Failed() {
		t.Fatal("violations recorded")
	}
}

// TestFindRelative: the start directory given as a relative path (".", "d", "d/t"), which only a
// caller of the Go API can do: the search must still end.
func TestFindRelative(t *testing.T) {
	s := ev.Open(t, "C17")
	s.Watchdog(10*time.Second, 4<<30)
	defer s.Done()
	base := findBase(t)
	var idx uint64
	for _, cfg := range [][]int{{lvNothing, lvNothing, lvNothing}, {lvSpokfile, lvNothing, lvNothing}, {lvNothing, lvSpokfile, lvNothing}, {lvNothing, lvNothing, lvSpokfile}, {lvDirSpok, lvNothing, lvNothing}, {lvSpokBefore, lvNothing, lvDirSpok}} {
		c := FindCase{Cfg: cfg, Child: []string{"d", "t"}}
		if err := c.build(base); err != nil {
			t.Fatal(err)
		}
		for cwdLevel := 0; cwdLevel < 3; cwdLevel++ {
			for startLevel := cwdLevel; startLevel < 3; startLevel++ {
				for _, stopLevel := range []int{0, cwdLevel, -1} {
					c.Start, c.Stop, c.RelFrom = startLevel, stopLevel, cwdLevel+1
					idx++
					data, _ := json.Marshal(c)
					s.Progress(idx, data)
					s.Tick()
					s.Eval()
					s.NonTrivial("rel" + string(data))
					if f := execFind(s, base, c); f != nil {
						s.Violation("find", f.Sig, f.Msg, f.Size, c)
					}
				}
			}
		}
	}
	if s.Failed() {
		t.Fatal("violations recorded")
	}
}

// TestFindNames: every odd directory name (pattern characters, blanks, format verbs, other scripts)
// in every position of a chain of three levels, with a look-alike sibling that has a spokfile.
func TestFindNames(t *testing.T) {
	s := ev.Open(t, "C17")
	s.Watchdog(10*time.Second, 4<<30)
	defer s.Done()
	base := findBase(t)
	seen := map[string]bool{}
	var idx uint64
	for _, n1 := range FindChildNames {
		for _, n2 := range FindChildNames {
			if !(n2 == "t" || n1 == "d" || n1 == n2) {
				continue // one odd name at a time, or the same one twice
			}
			for _, cfg := range [][]int{{lvSpokfile, lvNothing, lvNothing}, {lvNothing, lvSpokfile, lvNothing}, {lvNothing, lvNothing, lvSpokfile}, {lvNothing, lvNothing, lvNothing}, {lvSpokfile, lvSpokBefore, lvDirSpok}} {
				c := FindCase{Cfg: cfg, Child: []string{n1, n2}}
				if err := c.build(base); err != nil {
					t.Fatal(err)
				}
				for start := 0; start < 3; start++ {
					for _, stop := range []int{0, 1, -1} {
						c.Start, c.Stop = start, stop
						idx++
						data, _ := json.Marshal(c)
						s.Progress(idx, data)
						s.Tick()
						s.Eval()
						s.Class("odd_directory_names")
						if f := execFind(s, base, c); f != nil && !seen[f.Sig] {
							seen[f.Sig] = true
							s.Violation("find", f.Sig, f.Msg, f.Size, c)
						}
					}
				}
			}
		}
	}
	if s.Failed() {
		t.Fatal("violations recorded")
	}
}

// TestFindCrowded: (a) directories with very many entries (1 023, 1 024, 1 025, 5 000) in which the
// spokfile was created first or last (where it comes in the raw listing is the file system's
// business), with another spokfile one level up as a decoy; (b) start directories reached through a
// link that names one of their own ancestors (`self -> .`, `up -> ..`): the climb is over the names
// in the path, and an enclosing spokfile is found however often a real directory is passed.
func TestFindCrowded(t *testing.T) {
	s := ev.Open(t, "C17")
	s.Watchdog(10*time.Second, 4<<30)
	defer s.Done()
	if f := execFindCrowded(t, s); f != nil || s.Failed() {
		t.Fatal("violations recorded")
	}
}

// execFindCrowded runs the whole space; with s == nil (replay) it only returns the first failure.
func execFindCrowded(t *testing.T, s *ev.Shard) *rp.Fail {
	base := findBase(t)
	seen := map[string]bool{}
	var idx uint64
	var first *rp.Fail
	judge := func(class string, c map[string]any, start, stop, want string) {
		idx++
		data, _ := json.Marshal(c)
		if s != nil {
			s.Progress(idx, data)
			s.Tick()
			s.Eval()
			s.Class(class)
			s.NonTrivial(class + string(data))
		}
		got, err := file.Find(nopLogger{}, start, stop)
		sig, msg := "", ""
		switch {
		case want == "" && err == nil:
			sig, msg = "found-above-stop", fmt.Sprintf("%v: no spokfile between start and stop, Find returned %s", c, rel(base, got))
		case want != "" && err != nil:
			sig, msg = "spokfile-missed", fmt.Sprintf("%v: the nearest spokfile is %s, Find reported %v", c, rel(base, want), err)
		case want != "" && got != want:
			sig, msg = "wrong-spokfile", fmt.Sprintf("%v: the nearest spokfile is %s, Find returned %s", c, rel(base, want), rel(base, got))
		}
		if sig != "" && first == nil {
			first = &rp.Fail{Sig: sig, Msg: msg, Size: 3}
		}
		if sig != "" && !seen[sig] && s != nil {
			seen[sig] = true
			s.Violation("find-crowded", sig, msg, 3, c)
		}
	}
	w := func(p string) {
		if err := os.WriteFile(p, []byte("# x\n"), 0o644); err != nil {
			t.Fatal(err)
		}
	}
	for _, n := range []int{1023, 1024, 1025, 5000} {
		for _, spokFirst := range []bool{true, false} {
			for _, decoy := range []bool{true, false} {
				_ = os.RemoveAll(base)
				top, crowd := filepath.Join(base, "L"), filepath.Join(base, "L", "crowd")
				deep := filepath.Join(crowd, "zz-sub")
				if err := os.MkdirAll(deep, 0o755); err != nil {
					t.Fatal(err)
				}
				if decoy {
					w(filepath.Join(top, "spokfile"))
				}
				if spokFirst {
					w(filepath.Join(crowd, "spokfile"))
				}
				for i := 0; i < n; i++ {
					w(filepath.Join(crowd, fmt.Sprintf("entry-%05d.txt", i)))
				}
				if !spokFirst {
					w(filepath.Join(crowd, "spokfile"))
				}
				c := map[string]any{"other_entries": n, "spokfile_created_first": spokFirst, "another_spokfile_one_level_up": decoy}
				judge("directory_with_very_many_entries", c, deep, top, filepath.Join(crowd, "spokfile"))
				judge("directory_with_very_many_entries", c, crowd, base, filepath.Join(crowd, "spokfile"))
			}
		}
	}
	// links that name an ancestor
	for _, where := range []string{"L", "L/proj", "none"} {
		_ = os.RemoveAll(base)
		proj := filepath.Join(base, "L", "proj")
		if err := os.MkdirAll(filepath.Join(proj, "pkg"), 0o755); err != nil {
			t.Fatal(err)
		}
		_ = os.Symlink(".", filepath.Join(proj, "self"))
		_ = os.Symlink("..", filepath.Join(proj, "pkg", "up"))
		want := ""
		if where != "none" {
			want = filepath.Join(base, filepath.FromSlash(where), "spokfile")
			w(want)
		}
		for _, startRel := range []string{"self", "self/pkg", "pkg/up", "pkg/up/pkg", "pkg/up/pkg/up", "self/self/pkg/up/self"} {
			start := filepath.Join(proj, filepath.FromSlash(startRel))
			// the nearest spokfile by the names on the path: the first directory from start upwards that holds one
			expect := ""
			for d := start; ; d = filepath.Dir(d) {
				if p, ok := regularSpokfile(d); ok {
					expect = p
					break
				}
				if d == base || d == filepath.Dir(d) {
					break
				}
			}
			_ = want
			c := map[string]any{"spokfile_in": where, "start": "L/proj/" + startRel, "links": "proj/self -> . ; proj/pkg/up -> .."}
			judge("start_through_a_link_to_its_own_ancestor", c, start, base, expect)
		}
	}
	return first
}

// TestFindHistory: one process searches again and again while spokfiles come and go on the chain:
// every sequence of up to three changes (a spokfile appears at / disappears from one of three levels),
// a search after each, for two stop directories. A search knows nothing of the one before.
func TestFindHistory(t *testing.T) {
	s := ev.Open(t, "C17")
	s.Watchdog(10*time.Second, 4<<30)
	defer s.Done()
	base := findBase(t)
	seen := map[string]bool{}
	var idx uint64
	for seq := 0; seq < 3*3*3; seq++ {
		for _, stop := range []int{0, 1} {
			c := FindCase{Cfg: []int{lvSpokfile, lvNothing, lvNothing}, Child: []string{"d", "t"}, Start: 2, Stop: stop}
			if err := c.build(base); err != nil {
				t.Fatal(err)
			}
			dirs := c.dirs(base)
			k := seq
			for step := 0; step < 4; step++ {
				if step > 0 {
					// toggle the spokfile of one level
					p := filepath.Join(dirs[k%3], "spokfile")
					k /= 3
					if _, err := os.Lstat(p); err == nil {
						_ = os.Remove(p)
					} else {
						_ = os.WriteFile(p, []byte("# x\n"), 0o644)
					}
				}
				idx++
				data, _ := json.Marshal(map[string]any{"toggles": seq, "after_step": step, "stop": stop})
				s.Progress(idx, data)
				s.Tick()
				s.Eval()
				s.Class("searches_in_one_process_while_spokfiles_come_and_go")
				s.NonTrivial("hist" + string(data))
				if f := execFind(s, base, c); f != nil && !seen[f.Sig] {
					seen[f.Sig] = true
					f.Msg = fmt.Sprintf("after %d change(s) of sequence %d (spokfiles toggled at levels, base 3 digits): %s", step, seq, f.Msg)
					s.Violation("find", f.Sig, f.Msg, f.Size, c)
				}
			}
		}
	}
	if s.Failed() {
		t.Fatal("violations recorded")
	}
}

// TestFindDeep: long chains (a working directory dozens of levels below its spokfile).
func TestFindDeep(t *testing.T) {
	s := ev.Open(t, "C17")
	s.Watchdog(10*time.Second, 4<<30)
	defer s.Done()
	base := findBase(t)
	seen := map[string]bool{}
	for _, depth := range []int{16, 31, 32, 33, 34, 40, 64, 65, 100} {
		for _, top := range []int{lvSpokfile, lvSpokBefore, lvNothing, lvDirSpok} {
			for _, stop := range []int{0, 1, depth / 2, -1} {
				c := FindCase{Start: depth - 1, Stop: stop}
				for i := 0; i < depth; i++ {
					cfg := lvNothing
					if i == 0 {
						cfg = top
					}
					c.Cfg = append(c.Cfg, cfg)
					if i+1 < depth {
						c.Child = append(c.Child, []string{"d", "t"}[i%2])
					}
				}
				if err := c.build(base); err != nil {
					t.Fatal(err)
				}
				data, _ := json.Marshal(c)
				s.Progress(uint64(depth), data)
				s.Tick()
				s.Eval()
				s.Class("deep_chain")
				if depth == 40 && top == lvSpokfile && stop == 0 {
					s.Sample(map[string]any{"depth": depth, "spokfile_at_level": 0, "start_level": depth - 1, "stop_level": stop})
				}
				if f := execFind(s, base, c); f != nil {
					if s.IsKnown(f.Sig) {
						s.Known(f.Sig, c)
						continue
					}
					if !seen[f.Sig] {
						seen[f.Sig] = true
						s.Violation("find", f.Sig, f.Msg, f.Size, c)
					}
				}
			}
		}
	}
	if s.Failed() {
		t.Fatal("violations recorded")
	}
}

// TestReplay re-executes one saved case.
func TestReplay(t *testing.T) {
	data, err := os.ReadFile(os.Getenv("VERIF_REPLAY"))
	if err != nil {
		t.Skip("no replay file")
	}
	var v ev.Violation
	if err := json.Unmarshal(data, &v); err != nil {
		t.Fatalf("bad replay file: %v", err)
	}
	raw := v.Case
	if len(v.Kind) > 9 && v.Kind[len(v.Kind)-9:] == "-inflight" {
		var w struct {
			Text string `json:"payload_text"`
		}
		if err := json.Unmarshal(v.Case, &w); err != nil {
			t.Fatal(err)
		}
		raw = []byte(w.Text)
	}
	var f *rp.Fail
	switch v.Kind {
	case "findbin":
		var c FindCase
		if err := json.Unmarshal(raw, &c); err != nil {
			t.Fatal(err)
		}
		f = execFindBinary(nil, newBox(t), c)
	case "find", "find-inflight":
		var c FindCase
		if err := json.Unmarshal(raw, &c); err != nil {
			t.Fatal(err)
		}
		base := findBase(t)
		if err := c.build(base); err != nil {
			t.Fatal(err)
		}
		done := make(chan *rp.Fail, 1)
		go func() { done <- execFind(nil, base, c) }()
		select {
		case f = <-done:
		case <-time.After(15 * time.Second):
			t.Fatalf("file.Find did not terminate within 15 s on %+v [process-stalled]", c)
		}
	default:
		f = replayOther(t, v, raw)
	}
	if f != nil {
		t.Fatalf("%s [%s]", f.Msg, f.Sig)
	}
}

func replayOther(t *testing.T, v ev.Violation, raw []byte) *rp.Fail {
	switch v.Kind {
	case "hashbin":
		var c HashBinCase
		if err := json.Unmarshal(raw, &c); err != nil {
			t.Fatal(err)
		}
		return execHashBin(nil, newBox(t), c)
	case "skipbin":
		var c SkipCase
		if err := json.Unmarshal(raw, &c); err != nil {
			t.Fatal(err)
		}
		return execSkip(v.Property, nil, newBox(t), c)
	case "errbin":
		var c ErrCase
		if err := json.Unmarshal(raw, &c); err != nil {
			t.Fatal(err)
		}
		return execErrBinary(nil, newBox(t), c)
	case "graphbin":
		var c GraphBinCase
		if err := json.Unmarshal(raw, &c); err != nil {
			t.Fatal(err)
		}
		return execGraphBin(nil, newBox(t), c)
	case "force":
		var c ForceCase
		if err := json.Unmarshal(raw, &c); err != nil {
			t.Fatal(err)
		}
		return execForce(nil, newBox(t), c)
	case "vars-inproc":
		return execVarsInProcess(t, nil)
	case "readfault":
		return execReadFaults(t, nil, newBox(t))
	case "find-crowded":
		return execFindCrowded(t, nil)
	case "failtemplate":
		return execFailTemplates(nil, newBox(t), nil)
	case "slowcmd":
		var c struct {
			Nap int `json:"sleep_seconds"`
		}
		if err := json.Unmarshal(raw, &c); err != nil || c.Nap == 0 {
			c.Nap = 16
		}
		return execSlow(newBox(t), c.Nap)
	case "unpriv-find":
		var c PermCase
		if err := json.Unmarshal(raw, &c); err != nil {
			t.Fatal(err)
		}
		if os.Geteuid() == 0 {
			t.Skip("needs an unprivileged user")
		}
		return execFindPerm(filepath.Join(findBase(t), "perm"), c)
	case "digestbin":
		var c DigestCase
		if err := json.Unmarshal(raw, &c); err != nil {
			t.Fatal(err)
		}
		return execDigest(nil, newBox(t), c)
	case "fmtbin":
		var c FmtCase
		if err := json.Unmarshal(raw, &c); err != nil {
			t.Fatal(err)
		}
		return execFmtBinary(v.Property, nil, newBox(t), c)
	case "fail":
		var c FailCase
		if err := json.Unmarshal(raw, &c); err != nil {
			t.Fatal(err)
		}
		return execFail(nil, newBox(t), c)
	case "report":
		var c ReportCase
		if err := json.Unmarshal(raw, &c); err != nil {
			t.Fatal(err)
		}
		return execReport(nil, newBox(t), c)
	case "write":
		var c WriteCase
		if err := json.Unmarshal(raw, &c); err != nil {
			t.Fatal(err)
		}
		return execWrite(nil, newBox(t), c)
	case "kill":
		var c KillCase
		if err := json.Unmarshal(raw, &c); err != nil {
			t.Fatal(err)
		}
		return execKill(nil, newBox(t), c)
	case "clean":
		var c CleanCase
		if err := json.Unmarshal(raw, &c); err != nil {
			t.Fatal(err)
		}
		return execClean(nil, newBox(t), c)
	case "vars":
		var c VarsCase
		if err := json.Unmarshal(raw, &c); err != nil {
			t.Fatal(err)
		}
		return execVars(nil, newBox(t), c)
	}
	t.Fatalf("unknown replay kind %q", v.Kind)
	return nil
}

// TestFindBinary: the same triples through the real CLI (`spok --show` with cwd = start, HOME = stop).
func TestFindBinary(t *testing.T) {
	s := ev.Open(t, "C17")
	b := newBox(t)
	rp.Check(t, s, "findbin", func(rt *rapid.T) FindCase {
		d := rapid.IntRange(1, 4).Draw(rt, "depth")
		c := FindCase{}
		for i := 0; i < d; i++ {
			c.Cfg = append(c.Cfg, rapid.IntRange(0, nLevelCfg-1).Draw(rt, "cfg"))
			if i+1 < d {
				if rapid.IntRange(0, 2).Draw(rt, "odd_child") == 0 {
					c.Child = append(c.Child, rapid.SampledFrom(FindChildNames).Draw(rt, "child_name"))
				} else {
					c.Child = append(c.Child, rapid.SampledFrom([]string{"d", "t"}).Draw(rt, "child"))
				}
			}
		}
		c.Start = rapid.IntRange(0, d-1).Draw(rt, "start")
		c.Stop = rapid.IntRange(-1, d-1).Draw(rt, "stop")
		c.ViaSymlink = c.Stop >= 0 && c.Stop <= c.Start && rapid.Bool().Draw(rt, "via_symlink")
		if !c.ViaSymlink && rapid.IntRange(0, 3).Draw(rt, "stale_pwd") == 0 {
			c.StalePWD = 1 + rapid.IntRange(0, d-1).Draw(rt, "pwd_level")
		}
		return c
	}, func(c FindCase) *rp.Fail {
		s.Class("space_binary")
		return execFindBinary(s, b, c)
	})
}

func execFindBinary(s *ev.Shard, b *sandbox.Box, c FindCase) *rp.Fail {
	if err := b.Reset(); err != nil {
		return &rp.Fail{Sig: "harness", Msg: err.Error()}
	}
	base := filepath.Join(b.Home, "chain")
	if err := c.build(base); err != nil {
		return &rp.Fail{Sig: "harness", Msg: err.Error()}
	}
	if err := b.Own(); err != nil {
		return &rp.Fail{Sig: "harness", Msg: err.Error()}
	}
	dirs := c.dirs(base)
	stop := filepath.Join(base, "unrelated")
	if c.Stop >= 0 {
		stop = dirs[c.Stop]
	}
	cwd := dirs[c.Start]
	if c.ViaSymlink {
		// $HOME is reached through a link; the shell's logical working directory keeps that spelling
		link := filepath.Join(base, "homelink")
		if err := os.Symlink(stop, link); err != nil {
			return &rp.Fail{Sig: "harness", Msg: err.Error()}
		}
		relToStop, err := filepath.Rel(stop, cwd)
		if err != nil {
			return &rp.Fail{Sig: "harness", Msg: err.Error()}
		}
		stop, cwd = link, filepath.Join(link, relToStop)
		_ = os.Lchown(link, 65534, 65534)
	}
	pwd := cwd
	if c.StalePWD > 0 {
		pwd = dirs[c.StalePWD-1]
	}
	res := b.Run(cwd, []string{"HOME=" + stop, "PWD=" + pwd}, 20*time.Second, "--show")
	size := len(c.Cfg)*3 + c.Start
	desc := fmt.Sprintf("chain %v children %v: `spok --show` with cwd = level %d and HOME = %s", c.Cfg, c.Child, c.Start, rel(base, stop))
	if res.TimedOut {
		return &rp.Fail{Sig: "process-stalled", Size: size, Msg: desc + ": did not terminate within 20 s"}
	}
	out := sandbox.Strip(res.Stdout)
	found := ""
	for _, l := range strings.Split(out, "\n") {
		if strings.HasPrefix(l, "Tasks defined in ") {
			found = strings.TrimSuffix(strings.TrimPrefix(l, "Tasks defined in "), ":")
		}
	}
	nearest := func(lowest int) (string, bool) {
		for l := c.Start; l >= lowest; l-- {
			if p, ok := regularSpokfile(dirs[l]); ok {
				return p, true
			}
		}
		return "", false
	}
	if found != "" {
		if r, err := filepath.EvalSymlinks(found); err == nil {
			found = r
		}
	}
	within := c.Stop >= 0 && c.Stop <= c.Start
	if within {
		want, ok := nearest(c.Stop)
		switch {
		case ok && (res.Exit != 0 || found != want):
			return &rp.Fail{Sig: "spokfile-missed", Size: size, Msg: fmt.Sprintf("%s: nearest spokfile is %s, spok used %q (exit %d, stderr %q)", desc, rel(base, want), rel(base, found), res.Exit, sandbox.Strip(res.Stderr))}
		case !ok && res.Exit == 0:
			return &rp.Fail{Sig: "found-above-stop", Size: size, Msg: fmt.Sprintf("%s: no spokfile between cwd and HOME, yet spok used %q", desc, rel(base, found))}
		}
	} else if res.Exit == 0 {
		if want, ok := nearest(0); !ok || found != want {
			return &rp.Fail{Sig: "wrong-spokfile", Size: size, Msg: fmt.Sprintf("%s: spok used %q, not the nearest spokfile above cwd", desc, rel(base, found))}
		}
	}
	// whatever spok is asked to do from there, it works on the same spokfile (or finds none)
	for _, action := range []string{"--vars", "--clean", "-c"} {
		r2 := b.Run(cwd, []string{"HOME=" + stop, "PWD=" + pwd}, 20*time.Second, action)
		if r2.TimedOut {
			return &rp.Fail{Sig: "process-stalled", Size: size, Msg: fmt.Sprintf("%s, then `spok %s`: did not terminate within 20 s", desc, action)}
		}
		used := ""
		for _, l := range strings.Split(sandbox.Strip(r2.Stdout), "\n") {
			if strings.HasPrefix(l, "Variables defined in ") {
				used = strings.TrimSuffix(strings.TrimPrefix(l, "Variables defined in "), ":")
				if r, err := filepath.EvalSymlinks(used); err == nil {
					used = r
				}
			}
		}
		switch {
		case res.Exit == 0 && found != "" && r2.Exit != 0:
			return &rp.Fail{Sig: "spokfile-missed", Size: size, Msg: fmt.Sprintf("%s: --show used %s, but `spok %s` from the same directory failed (exit %d, stderr %q)", desc, rel(base, found), action, r2.Exit, sandbox.Strip(r2.Stderr))}
		case res.Exit == 0 && found != "" && used != "" && used != found:
			return &rp.Fail{Sig: "wrong-spokfile", Size: size, Msg: fmt.Sprintf("%s: --show used %s, `spok %s` from the same directory used %s", desc, rel(base, found), action, rel(base, used))}
		case res.Exit != 0 && r2.Exit == 0 && strings.Contains(strings.ToLower(sandbox.Strip(res.Stderr)), "no spokfile"):
			return &rp.Fail{Sig: "found-above-stop", Size: size, Msg: fmt.Sprintf("%s: --show found no spokfile, yet `spok %s` from the same directory succeeded: %q", desc, action, sandbox.Strip(r2.Stdout))}
		}
	}
	if s != nil {
		s.NonTrivial("bin" + fmt.Sprint(c.Cfg, c.Child, c.Start, c.Stop, c.ViaSymlink, c.StalePWD))
		if c.StalePWD > 0 && c.StalePWD-1 != c.Start {
			s.Class("stale_PWD")
		}
		if c.ViaSymlink {
			s.Class("home_through_symlink")
		}
	}
	return nil
}

func TestHashBinary(t *testing.T) {
	s := ev.Open(t, "C18")
	b := newBox(t)
	rp.Check(t, s, "hashbin", genHashBin, func(c HashBinCase) *rp.Fail {
		s.Class("space_binary_hash")
		if s.WantSample() {
			s.Sample(c)
		}
		return execHashBin(s, b, c)
	})
}

func TestSkipBinary(t *testing.T) {
	s := ev.Open(t, id())
	b := newBox(t)
	rp.Check(t, s, "skipbin", genSkip, func(c SkipCase) *rp.Fail {
		s.Class("space_binary_incremental")
		if s.WantSample() {
			s.Sample(map[string]any{"spokfile": c.source(), "steps": c.Steps})
		}
		return execSkip(id(), s, b, c)
	})
}

// TestSkipTemplates: one task, every pair of ways to start spok, an edit that is undone again:
// run (way 1), edit, run (way 2), undo the edit, run (way 1), run (way 2).
func TestSkipTemplates(t *testing.T) {
	s := ev.Open(t, id())
	b := newBox(t)
	ways := []SkipStep{{}, {Nested: true}, {Elsewhere: true}, {Style: "rel-dot"}, {Style: "rel-parent"}}
	seen := map[string]bool{}
	for _, dep := range []string{"in.txt", "src/*.go", "**/*.go"} {
		file := "in.txt"
		if dep != "in.txt" {
			file = "src/a.go"
		}
		for _, w1 := range ways {
			for _, w2 := range ways {
				for _, link := range []bool{false, true} {
					c := SkipCase{NTasks: 1, FileDep: []string{dep}, SpokLink: link, Steps: []SkipStep{w1, {Edit: file}, w2, {Edit: file, Revert: true}, w1, w2}}
					s.Eval()
					s.Class("enumerated_start_pairs")
					if f := execSkip(id(), s, b, c); f != nil && !seen[f.Sig] {
						seen[f.Sig] = true
						s.Violation("skipbin", f.Sig, f.Msg, f.Size, c)
					}
				}
			}
		}
	}
	// an invocation that cannot write the cache file, between ordinary ones: whatever was recorded for
	// the tasks it did not run still counts afterwards
	for _, edit := range []string{"in.txt", "data.json"} {
		for _, w := range ways {
			for _, fl := range [][]string{nil, {"--json"}, {"--quiet"}} {
				ro := w
				ro.ROCache, ro.Flags = true, fl
				c := SkipCase{NTasks: 2, FileDep: []string{"in.txt", "data.json"}, Deps: [][2]int{{0, 1}}, Steps: []SkipStep{w, {Edit: edit}, ro, w, w, {Edit: edit, Revert: true}, ro, w}}
				s.Eval()
				s.Class("enumerated_read_only_cache_between_runs")
				if f := execSkip(id(), s, b, c); f != nil && !seen[f.Sig] {
					seen[f.Sig] = true
					s.Violation("skipbin", f.Sig, f.Msg, f.Size, c)
				}
			}
		}
	}
	if s.Failed() {
		t.Fatal("violations recorded")
	}
}

func TestErrBinary(t *testing.T) {
	s := ev.Open(t, "C08")
	b := newBox(t)
	rp.Check(t, s, "errbin", genErr, func(c ErrCase) *rp.Fail {
		s.Class("space_binary_errors")
		if s.WantSample() {
			s.Sample(map[string]any{"spokfile": c.Src})
		}
		return execErrBinary(s, b, c)
	})
}

// execSlow: two tasks, the first of which sleeps nap seconds; everything runs, in order.
func execSlow(b *sandbox.Box, nap int) *rp.Fail {
	if err := b.ResetAs(""); err != nil {
		return &rp.Fail{Sig: "harness", Msg: err.Error()}
	}
	src := fmt.Sprintf("task slow() {\n    echo begin1 >> $LOG\n    sleep %d\n    echo end1 >> $LOG\n}\n\ntask after(slow) {\n    echo begin0 >> $LOG\n    echo end0 >> $LOG\n}\n", nap)
	if err := writeProject(b, b.Proj, map[string]string{"spokfile": src}); err != nil {
		return &rp.Fail{Sig: "harness", Msg: err.Error()}
	}
	logPath := filepath.Join(b.Home, "run.log")
	r := b.Run(b.Proj, []string{"LOG=" + logPath}, time.Duration(nap+60)*time.Second, "after")
	if log := readLog(logPath); r.Exit != 0 || strings.Join(log, " ") != "begin1 end1 begin0 end0" {
		return &rp.Fail{Sig: "unexpected-error", Size: 2, Msg: fmt.Sprintf("spokfile:\n%s`spok after` (no command fails; the first one sleeps %d s): exit %d, log %v, stderr %s", src, nap, r.Exit, log, clip(sandbox.Strip(r.Stderr)))}
	}
	return nil
}

// TestGraphTemplates: every spelling of a name that names no task x its place among the requested
// names x flags, on a two-task chain; and the same requests with every name defined.
func TestGraphTemplates(t *testing.T) {
	s := ev.Open(t, "C03")
	b := newBox(t)
	seen := map[string]bool{}
	// a command that simply takes its time (a build, a download): longer than a quarter of a minute, in
	// the thorough tier longer than a minute. Nothing fails, so everything runs, in order.
	naps := []int{16}
	if ev.Thorough() {
		naps = append(naps, 61)
	}
	for _, nap := range naps {
		s.Eval()
		s.Class("a_command_that_takes_its_time")
		s.NonTrivial(fmt.Sprint("nap", nap))
		if f := execSlow(b, nap); f != nil {
			s.Violation("slowcmd", f.Sig, f.Msg, 2, map[string]any{"sleep_seconds": nap})
		}
	}
	spellings := []string{"notatask", "", " ", "\t", "  ", "ALPHA", "alpha ", " alpha", "alph", "alphaa", "alpha,bravo", "-"}
	for _, flags := range [][]string{nil, {"--force"}, {"--json"}, {"--quiet"}} {
		for _, req := range [][]int{{0}, {1}, {0, 1}, {1, 0}} {
			for pos := 0; pos <= len(req)+1; pos++ {
				for i := range spellings {
					c := GraphBinCase{N: 2, Edges: [][2]int{{0, 1}}, Via: "name", Undef: -1, Flags: flags, Req: req}
					if pos > 0 {
						c.ReqUndef, c.UndefName = pos, &spellings[i]
					} else if i > 0 {
						continue
					}
					if c.UndefName != nil && *c.UndefName == "-" && pos != len(req)+1 {
						continue // a lone dash is only safely an argument at the end
					}
					s.Eval()
					s.Class("enumerated_undefined_requests")
					if f := execGraphBin(s, b, c); f != nil && !seen[f.Sig] {
						seen[f.Sig] = true
						s.Violation("graphbin", f.Sig, f.Msg, f.Size, c)
					}
				}
			}
		}
	}
	if s.Failed() {
		t.Fatal("violations recorded")
	}
}

func TestGraphBinary(t *testing.T) {
	s := ev.Open(t, "C03")
	b := newBox(t)
	rp.Check(t, s, "graphbin", genGraphBin, func(c GraphBinCase) *rp.Fail {
		s.Class("space_binary_graph")
		if s.WantSample() {
			s.Sample(map[string]any{"spokfile": c.source(), "via": c.Via, "flags": c.Flags})
		}
		return execGraphBin(s, b, c)
	})
}

func TestCleanGlobs(t *testing.T) {
	s := ev.Open(t, "C05")
	b := newBox(t)
	rp.Check(t, s, "clean", func(rt *rapid.T) CleanCase {
		c := genClean(rt)
		c.Literal, c.Named, c.CleanTask = nil, nil, false
		var globs []string
		for _, g := range c.Globs {
			if g != "s*" && g != "*" { // they match the spokfile itself: C12's subject
				globs = append(globs, g)
			}
		}
		if len(globs) == 0 {
			globs = []string{"b*/*"}
		}
		c.Globs = globs
		return c
	}, func(c CleanCase) *rp.Fail {
		s.Class("space_binary_clean_globs")
		if s.WantSample() {
			s.Sample(map[string]any{"spokfile": c.source(), "tree": c.Tree})
		}
		return execClean(s, b, c)
	})
}

func TestForceBinary(t *testing.T) {
	s := ev.Open(t, "C14")
	b := newBox(t)
	rp.Check(t, s, "force", genForce, func(c ForceCase) *rp.Fail {
		s.Class("space_binary_force")
		if s.WantSample() {
			s.Sample(map[string]any{"spokfile": c.source(), "via": c.Via, "extra_flags": c.Extra})
		}
		return execForce(s, b, c)
	})
}

func TestFmtBinary(t *testing.T) {
	s := ev.Open(t, id())
	b := newBox(t)
	rp.Check(t, s, "fmtbin", genFmt, func(c FmtCase) *rp.Fail {
		s.Class("space_binary_fmt")
		if s.WantSample() && len(c.Src) < 2000 {
			s.Sample(map[string]any{"spokfile_formatted_by_the_binary": c.Src})
		}
		if len(c.Src) > 60000 {
			s.Class("line_around_64KiB")
		}
		return execFmtBinary(id(), s, b, c)
	})
}

// TestFmtBoundary: lines whose length crosses the 64 KiB mark when they are formatted (a '#' gains a
// blank, a command its indentation, ':=' its blanks), every length around the mark, as a comment, a
// string and a command, in a tight and in the formatted spelling.
func TestFmtBoundary(t *testing.T) {
	s := ev.Open(t, id())
	b := newBox(t)
	seen := map[string]bool{}
	n := 0
	for delta := 0; delta <= 14; delta++ {
		long := strings.Repeat("x", 65536-delta)
		for _, src := range []string{
			"X := \"a\"\n#" + long + "\nAFTER := \"tail\"\n",
			"X := \"a\"\n# " + long + "\nAFTER := \"tail\"\n",
			"H:=\"" + long + "\"\nAFTER := \"tail\"\n",
			"H := \"" + long + "\"\nAFTER := \"tail\"\n",
			"task t() {\necho " + long + "\n}\nAFTER := \"tail\"\n",
			"task t() {\n    echo " + long + "\n}\n\nAFTER := \"tail\"\n",
			"task t(\"a\",\"" + long + "\") {\n}\n",
		} {
			n++
			c := FmtCase{Src: src}
			s.Eval()
			s.Class("fmt_line_crossing_64KiB")
			if f := execFmtBinary(id(), s, b, c); f != nil && !seen[f.Sig] {
				seen[f.Sig] = true
				s.Violation("fmtbin", f.Sig, f.Msg, f.Size, c)
			}
		}
	}
	// dependency and output lists with entries that name the project directory itself or nothing
	// (".", "./", ""): every list of up to three entries over them and a file name, and a few longer ones
	elems := []string{".", "./", "", "a.go"}
	var lists [][]string
	var grow func(prefix []string, left int)
	grow = func(prefix []string, left int) {
		if len(prefix) > 0 {
			lists = append(lists, append([]string(nil), prefix...))
		}
		if left == 0 {
			return
		}
		for _, e := range elems {
			grow(append(prefix, e), left-1)
		}
	}
	grow(nil, 3)
	lists = append(lists, []string{".", "a.go", ".", "b.go"}, []string{"a.go", ".", ".", "b.go"}, []string{".", ".", "a.go", "."}, []string{"", "a.go", "./", "b.go", "."})
	for _, l := range lists {
		var q []string
		for _, e := range l {
			q = append(q, "\""+e+"\"")
		}
		for _, src := range []string{
			"task t(" + strings.Join(q, ", ") + ") {\n    echo hi\n}\n",
			"task t(" + strings.Join(q, ",") + ") -> (" + strings.Join(q, ", ") + ") {\n    echo hi\n}\n",
		} {
			n++
			c := FmtCase{Src: src}
			s.Eval()
			s.Class("fmt_lists_with_entries_naming_the_project_itself")
			if f := execFmtBinary(id(), s, b, c); f != nil && !seen[f.Sig] {
				seen[f.Sig] = true
				s.Violation("fmtbin", f.Sig, f.Msg, f.Size, c)
			}
		}
	}
	// the formatted text is longer than the file and the file may not grow (a full disk, a quota)
	for _, src := range []string{"X:=\"a\"\ntask t(){echo hi}\n", "#c\nA:=\"1\"\nB:=join(\"a\",\"b\")\n", "task a(\"x\",\"y\")->\"z\"{\necho one\necho two\n}\n", "# doc\ntask t() {\n\techo hi\n}\n"} {
		n++
		c := FmtCase{Src: src, FileLimit: true}
		s.Eval()
		s.Class("fmt_where_the_file_may_not_grow")
		if f := execFmtBinary(id(), s, b, c); f != nil && !seen[f.Sig] {
			seen[f.Sig] = true
			s.Violation("fmtbin", f.Sig, f.Msg, f.Size, c)
		}
	}
	// whole files around and beyond 1 MiB (and a few MiB): nothing bounds the length of a spokfile, and
	// what comes last in it counts as much as what comes first
	for _, total := range []int{1<<20 - 64, 1 << 20, 1<<20 + 64, 2<<20 + 3, 5 << 20} {
		for kind := 0; kind < 3; kind++ {
			var sb strings.Builder
			sb.WriteString("FIRST := \"head\"\n\n")
			for i := 0; sb.Len() < total; i++ {
				switch kind {
				case 0:
					fmt.Fprintf(&sb, "# note number %d about nothing in particular\n", i)
				case 1:
					fmt.Fprintf(&sb, "V%s := \"value %d\"\n", gen.Letters(i), i)
				default:
					fmt.Fprintf(&sb, "# does t%s\ntask t%s(\"in.txt\") {\n    echo %d\n}\n\n", gen.Letters(i), gen.Letters(i), i)
				}
			}
			sb.WriteString("\n# the last one\ntask last() {\n    echo last\n}\n\nLAST := \"tail\"\n")
			n++
			c := FmtCase{Src: sb.String()}
			s.Eval()
			s.Class("fmt_file_of_a_megabyte_or_more")
			if f := execFmtBinary(id(), s, b, c); f != nil && !seen[f.Sig] {
				seen[f.Sig] = true
				s.Violation("fmtbin", f.Sig, f.Msg, f.Size, c)
			}
		}
	}
	if s.Failed() {
		t.Fatal("violations recorded")
	}
}

// TestReadFaults (C06 binary leg): the ways reading a file can go other than "all at once": the N-th
// read of the spokfile fails with EIO (strace fault injection), or the spokfile is a named pipe that
// delivers its bytes in bursts. spok either says it could not read the file (non-zero exit), or lists
// exactly what it lists for the same bytes in a regular file - never a part of them as if it were all.
func TestReadFaults(t *testing.T) {
	s := ev.Open(t, "C06")
	if f := execReadFaults(t, s, newBox(t)); f != nil || s.Failed() {
		t.Fatal("violations recorded")
	}
}

// execReadFaults runs the whole (small) space; with s == nil (replay) it returns the first failure.
func execReadFaults(t *testing.T, s *ev.Shard, b *sandbox.Box) *rp.Fail {
	var sb strings.Builder
	sb.WriteString("FIRST := \"head\"\n\n")
	for i := 0; sb.Len() < 20000; i++ {
		fmt.Fprintf(&sb, "# does t%s\ntask t%s(\"in.txt\") {\n    echo %d\n}\n\nV%s := \"value %d\"\n\n", gen.Letters(i), gen.Letters(i), i, gen.Letters(i), i)
	}
	sb.WriteString("LAST := \"tail\"\n")
	src := sb.String()
	seen := map[string]bool{}
	var first *rp.Fail
	report := func(sig, msg string, c any) {
		if first == nil {
			first = &rp.Fail{Sig: sig, Msg: msg, Size: 1}
		}
		if !seen[sig] && s != nil {
			seen[sig] = true
			s.Violation("readfault", sig, msg, 1, c)
		}
	}
	eval := func(class string, c any) {
		if s != nil {
			s.Eval()
			s.Class(class)
			s.NonTrivial(fmt.Sprint(c))
		}
	}
	setup := func() (string, bool) {
		if err := b.ResetAs(""); err != nil {
			t.Fatal(err)
		}
		if err := writeProject(b, b.Proj, map[string]string{"spokfile": src, "in.txt": "x"}); err != nil {
			t.Fatal(err)
		}
		return filepath.Join(b.Proj, "spokfile"), true
	}
	baseline := map[string]string{}
	path, _ := setup()
	for _, action := range []string{"--show", "--vars"} {
		r := b.Run(b.Proj, nil, runTimeout, action)
		if r.Exit != 0 {
			t.Fatalf("harness: %s on the unharmed file failed: %s", action, r.Stderr)
		}
		baseline[action] = sandbox.Strip(r.Stdout)
	}
	if stracePath != "" {
		for when := 1; when <= 8; when++ {
			for _, action := range []string{"--show", "--vars"} {
				c := map[string]any{"spokfile_bytes": len(src), "action": action, "read_that_fails": when}
				eval("read_error_on_the_spokfile", c)
				wrapper := []string{stracePath, "-f", "-qq", "-o", "/dev/null", "-P", path, "-e", "trace=read", "-e", fmt.Sprintf("inject=read:error=EIO:when=%d", when)}
				r := b.RunWrapped(wrapper, b.Proj, nil, runTimeout, action)
				if r.Exit == 0 && sandbox.Strip(r.Stdout) != baseline[action] {
					report("part-of-the-file-taken-for-all", fmt.Sprintf("a spokfile of %d bytes whose read number %d fails with EIO: `spok %s` exits 0 and prints\n%s\ninstead of failing or printing what it prints for the whole file (%d bytes of listing)", len(src), when, action, clip(sandbox.Strip(r.Stdout)), len(baseline[action])), c)
				}
			}
		}
	} else if s != nil {
		s.Note("strace not available: read errors on the spokfile were not injected")
	}
	// a named pipe that delivers the bytes in bursts
	for _, cut := range []int{1, 100, 4096, 4097, 8192, len(src) / 2, len(src) - 1} {
		for _, action := range []string{"--show", "--vars"} {
			path, _ := setup()
			_ = os.Remove(path)
			if err := syscall.Mkfifo(path, 0o666); err != nil {
				t.Fatal(err)
			}
			_ = b.Own()
			c := map[string]any{"spokfile_bytes": len(src), "action": action, "pipe_first_burst": cut}
			eval("spokfile_is_a_pipe_written_in_bursts", c)
			done := make(chan struct{})
			go func() {
				defer close(done)
				f, err := os.OpenFile(path, os.O_WRONLY, 0)
				if err != nil {
					return
				}
				defer f.Close()
				_, _ = f.WriteString(src[:cut])
				time.Sleep(30 * time.Millisecond)
				_, _ = f.WriteString(src[cut:])
			}()
			r := b.Run(b.Proj, nil, runTimeout, action)
			// whether or not spok opened the pipe: a reader of our own lets the writer finish (it may still
			// be waiting for someone to open the other end), and goes away once it has
			unblock, _ := os.OpenFile(path, os.O_RDONLY|syscall.O_NONBLOCK, 0)
			select {
			case <-done:
			case <-time.After(10 * time.Second):
			}
			if unblock != nil {
				_ = unblock.Close()
			}
			<-done
			if r.Exit == 0 && sandbox.Strip(r.Stdout) != baseline[action] {
				report("part-of-the-file-taken-for-all", fmt.Sprintf("the same %d bytes read from a named pipe that delivers %d bytes first and the rest 30 ms later: `spok %s` exits 0 and prints\n%s\ninstead of what it prints for the regular file", len(src), cut, action, clip(sandbox.Strip(r.Stdout))), c)
			}
		}
	}
	return first
}

func TestDigestBinary(t *testing.T) {
	s := ev.Open(t, "C04")
	b := newBox(t)
	rp.Check(t, s, "digestbin", genDigest, func(c DigestCase) *rp.Fail {
		if s.WantSample() {
			s.Sample(map[string]any{"deps": c.Deps, "styles": c.Styles, "edit": c.Edit})
		}
		return execDigest(s, b, c)
	})
}

func TestFail(t *testing.T) {
	s := ev.Open(t, "C09")
	b := newBox(t)
	rp.Check(t, s, "fail", genFail, func(c FailCase) *rp.Fail {
		if s.WantSample() {
			s.Sample(map[string]any{"spokfile": c.source(), "request": c.Request, "flags": c.Flags})
		}
		return execFail(s, b, c)
	})
}

// TestFailTemplates (C09): (a) many failing tasks in one invocation - 1, 2, 255, 256, 257, 512, 1000 of
// them, each with its own failing command - under {plain, --json, --quiet, --force}: a non-zero exit and
// an error that names one of them, whatever their number; (b) a failing command much longer than a
// terminal is wide, with the variables a terminal sets (COLUMNS, LINES, TERM) in the environment: the
// error still names the task.
func TestFailTemplates(t *testing.T) {
	s := ev.Open(t, "C09")
	b := newBox(t)
	seen := map[string]bool{}
	report := func(sig, msg string, c any) {
		if !seen[sig] {
			seen[sig] = true
			s.Violation("failtemplate", sig, msg, 2, c)
		}
	}
	if f := execFailTemplates(s, b, report); f != nil || s.Failed() {
		t.Fatal("violations recorded")
	}
}

func execFailTemplates(s *ev.Shard, b *sandbox.Box, report func(sig, msg string, c any)) *rp.Fail {
	var first *rp.Fail
	fail := func(sig, msg string, c any) {
		if first == nil {
			first = &rp.Fail{Sig: sig, Msg: msg, Size: 2}
		}
		if report != nil {
			report(sig, msg, c)
		}
	}
	eval := func(class string, c any) {
		if s != nil {
			s.Eval()
			s.Class(class)
			s.NonTrivial(class + fmt.Sprint(c))
		}
	}
	for _, n := range []int{1, 2, 255, 256, 257, 512, 1000} {
		var sb strings.Builder
		var names []string
		for i := 0; i < n; i++ {
			name := "t" + gen.Letters(i)
			names = append(names, name)
			fmt.Fprintf(&sb, "task %s() {\n    exit %d\n}\n\n", name, 1+i%7)
		}
		for _, flags := range [][]string{nil, {"--json"}, {"--quiet"}, {"--force"}} {
			if err := b.ResetAs(""); err != nil {
				return &rp.Fail{Sig: "harness", Msg: err.Error()}
			}
			if err := writeProject(b, b.Proj, map[string]string{"spokfile": sb.String()}); err != nil {
				return &rp.Fail{Sig: "harness", Msg: err.Error()}
			}
			c := map[string]any{"failing_tasks_requested": n, "flags": flags}
			eval("many_failing_tasks_in_one_invocation", c)
			r := b.Run(b.Proj, nil, 2*runTimeout, append(append([]string(nil), flags...), names...)...)
			stderr := sandbox.Strip(r.Stderr)
			if r.Exit == 0 {
				fail("failure-exits-zero", fmt.Sprintf("%d tasks, each with a failing command, requested in one invocation (flags %v): spok exited 0; stderr: %s", n, flags, clip(stderr)), c)
				continue
			}
			named := false
			for _, nm := range names {
				if regexp.MustCompile(`\b` + nm + `\b`).MatchString(stderr) {
					named = true
					break
				}
			}
			if !named {
				fail("failing-task-not-identified", fmt.Sprintf("%d failing tasks requested (flags %v): exit %d, but the error names none of them: %q", n, flags, r.Exit, clip(stderr)), c)
			}
		}
	}
	// exit statuses of one task's commands that add up to a multiple of 256 (1+255, 128+128, 100+100+56,
	// 255+255+2): a failure is a failure, however the statuses combine
	for _, sts := range [][]int{{1, 255}, {255, 1}, {128, 128}, {2, 254}, {42, 214}, {100, 100, 56}, {255, 255, 2}, {1, 0, 255}, {64, 64, 64, 64}} {
		var sb strings.Builder
		sb.WriteString("task sums(\"in.txt\") {\n")
		for _, st := range sts {
			fmt.Fprintf(&sb, "    sh -c 'exit %d'\n", st)
		}
		sb.WriteString("}\n")
		for _, flags := range [][]string{nil, {"--json"}, {"--quiet"}, {"--force"}} {
			if err := b.ResetAs(""); err != nil {
				return &rp.Fail{Sig: "harness", Msg: err.Error()}
			}
			if err := writeProject(b, b.Proj, map[string]string{"spokfile": sb.String(), "in.txt": "x"}); err != nil {
				return &rp.Fail{Sig: "harness", Msg: err.Error()}
			}
			c := map[string]any{"statuses_of_the_commands_of_one_task": sts, "flags": flags}
			eval("statuses_adding_up_to_a_multiple_of_256", c)
			r := b.Run(b.Proj, nil, runTimeout, append(append([]string(nil), flags...), "sums")...)
			if r.Exit == 0 {
				fail("failure-exits-zero", fmt.Sprintf("a task whose commands exit with %v (flags %v): spok exited 0", sts, flags), c)
				continue
			}
			if !regexp.MustCompile(`\bsums\b`).MatchString(sandbox.Strip(r.Stderr)) {
				fail("failing-task-not-identified", fmt.Sprintf("a task whose commands exit with %v (flags %v): exit %d, the error does not name the task: %q", sts, flags, r.Exit, clip(sandbox.Strip(r.Stderr))), c)
			}
			r2 := b.Run(b.Proj, nil, runTimeout, "sums")
			if r2.Exit == 0 {
				fail("failed-task-treated-as-up-to-date", fmt.Sprintf("a task whose commands exit with %v (flags %v) failed; the same request without any change then succeeds:\n%s", sts, flags, clip(sandbox.Strip(r2.Stdout))), c)
			}
		}
	}
	long := "echo " + strings.Repeat("a-rather-long-argument ", 12) + "&& exit 4"
	src := "task release() {\n    " + long + "\n}\n"
	for _, env := range [][]string{nil, {"COLUMNS=80", "LINES=24"}, {"COLUMNS=40", "LINES=24", "TERM=xterm-256color"}, {"COLUMNS=20"}, {"COLUMNS=0"}, {"COLUMNS=1"}} {
		for _, flags := range [][]string{nil, {"--json"}, {"--quiet"}} {
			if err := b.ResetAs(""); err != nil {
				return &rp.Fail{Sig: "harness", Msg: err.Error()}
			}
			if err := writeProject(b, b.Proj, map[string]string{"spokfile": src}); err != nil {
				return &rp.Fail{Sig: "harness", Msg: err.Error()}
			}
			c := map[string]any{"failing_command_length": len(long), "environment": env, "flags": flags}
			eval("long_failing_command_with_terminal_variables", c)
			r := b.Run(b.Proj, env, runTimeout, append(append([]string(nil), flags...), "release")...)
			stderr := sandbox.Strip(r.Stderr)
			if r.Exit == 0 {
				fail("failure-exits-zero", fmt.Sprintf("a failing command of %d characters in task release (environment %v, flags %v): spok exited 0", len(long), env, flags), c)
			} else if !regexp.MustCompile(`\brelease\b`).MatchString(stderr) {
				fail("failing-task-not-identified", fmt.Sprintf("a failing command of %d characters in task release (environment %v, flags %v): exit %d, but the error does not name the task: %q", len(long), env, flags, r.Exit, clip(stderr)), c)
			}
		}
	}
	return first
}

func TestReport(t *testing.T) {
	s := ev.Open(t, "C20")
	b := newBox(t)
	rp.Check(t, s, "report", genReport, func(c ReportCase) *rp.Fail {
		if s.WantSample() {
			s.Sample(map[string]any{"spokfile": c.source(), "actions": c.Actions})
		}
		return execReport(s, b, c)
	})
}

func TestWrite(t *testing.T) {
	s := ev.Open(t, "C19")
	b := newBox(t)
	rp.Check(t, s, "write", genWrite, func(c WriteCase) *rp.Fail {
		if s.WantSample() {
			s.Sample(map[string]any{"spokfile_class": c.Class, "spokfile": c.Src, "flags": c.Flags, "tasks": c.Tasks, "nested_cwd": c.Nested, "tree": c.Tree})
		}
		return execWrite(s, b, c)
	})
}

// TestWriteTemplates: one ordinary project (a task with a glob dependency and a declared output that
// exists) under every project directory name, run / forced / listed / formatted, from the root and a
// nested directory, as a first invocation and after two earlier ones with an edit in between.
func TestWriteTemplates(t *testing.T) {
	s := ev.Open(t, "C19")
	b := newBox(t)
	seen := map[string]bool{}
	src := "V := \"value\"\n\n# builds it\ntask build(\"**/*.go\") -> \"bin/out\" {\n    echo {{.V}}\n    true\n}\n\ntask default(build) {\n    echo hi\n}\n"
	tree := []string{"main.go", "pkg/a.go", "docs/readme.md", "Makefile", "spokfile.bak"}
	dirs := append([]string{""}, projDirPool...)
	for _, dir := range dirs {
		for _, nested := range []bool{false, true} {
			for _, fl := range [][]string{nil, {"--force"}, {"--show"}, {"--fmt"}, {"--json"}, {"--vars"}} {
				for _, hist := range []int{0, 2} {
					c := WriteCase{Tree: tree, Class: "valid", Src: src, Flags: fl, Nested: nested, ProjDir: dir, Prior: hist, EditDep: hist > 0}
					if fl == nil || fl[0] == "--force" || fl[0] == "--json" {
						c.Tasks = []string{"build"}
					}
					s.Eval()
					s.Class("enumerated_ordinary_project")
					if f := execWrite(s, b, c); f != nil && !seen[f.Sig] {
						seen[f.Sig] = true
						s.Violation("write", f.Sig, f.Msg, f.Size, c)
					}
					if fl != nil && fl[0] == "--fmt" {
						c.ROSpok = true // the same with a spokfile that cannot be written
						s.Eval()
						s.Class("enumerated_ordinary_project")
						if f := execWrite(s, b, c); f != nil && !seen[f.Sig] {
							seen[f.Sig] = true
							s.Violation("write", f.Sig, f.Msg, f.Size, c)
						}
					}
				}
			}
		}
	}
	// tasks called what flags and actions are called, asked for by name from the project and from below it
	var fl strings.Builder
	fl.WriteString("V := \"value\"\n\n")
	flagLike := []string{"init", "fmt", "clean", "show", "vars", "version", "help", "force", "spokfile", "json", "quiet", "debug"}
	for _, n := range flagLike {
		fmt.Fprintf(&fl, "# the task called %s\ntask %s(\"**/*.go\") {\n    echo %s {{.V}}\n}\n\n", n, n, n)
	}
	for _, dir := range []string{"", "proj [v2]", "my proj"} {
		for _, nested := range []bool{false, true} {
			for _, n := range flagLike {
				for _, extra := range [][]string{nil, {"--force"}, {"--quiet"}} {
					c := WriteCase{Tree: tree, Class: "valid", Src: fl.String(), Flags: extra, Tasks: []string{n}, Nested: nested, ProjDir: dir}
					s.Eval()
					s.Class("enumerated_tasks_named_like_flags")
					if f := execWrite(s, b, c); f != nil && !seen[f.Sig] {
						seen[f.Sig] = true
						s.Violation("write", f.Sig, f.Msg, f.Size, c)
					}
				}
			}
		}
	}
	if s.Failed() {
		t.Fatal("violations recorded")
	}
}

// TestVarsInProcess: a long-lived caller of the Go API loads one spokfile after the other — from
// different working directories, with a spokfile in between whose command cannot be expanded. What a
// variable's value is and what text a command carries depends on that spokfile and on the working
// directory at that moment, not on what was loaded before.
func TestVarsInProcess(t *testing.T) {
	s := ev.Open(t, "C13")
	if f := execVarsInProcess(t, s); f != nil {
		s.Violation("vars-inproc", f.Sig, f.Msg, 3, map[string]any{"sequence": "three directories x 40 rounds, a spokfile that does not load in between"})
		t.Fatal("violations recorded")
	}
}

func execVarsInProcess(t *testing.T, s *ev.Shard) *rp.Fail {
	base, err := os.MkdirTemp(workBase(t), "inproc-")
	if err != nil {
		t.Fatal(err)
	}
	defer os.RemoveAll(base)
	old, _ := os.Getwd()
	defer os.Chdir(old)
	good := func(greeting string) string {
		return fmt.Sprintf("GREETING := %q\nJ := join(\"out\", \"x\")\nJONE := join(\"solo\")\n\ntask show() {\n    echo {{.GREETING}} and {{.J}}\n    echo plain words $HOME\n}\n", greeting)
	}
	bad := "GREETING := \"hi\"\n\ntask show() {\n    echo leaked words {{.GREETING.Length}}\n}\n"
	load := func(dir, src string) (*file.SpokFile, error) {
		if err := os.MkdirAll(dir, 0o755); err != nil {
			t.Fatal(err)
		}
		if err := os.Chdir(dir); err != nil {
			t.Fatal(err)
		}
		tree, err := parser.New(src).Parse()
		if err != nil {
			t.Fatalf("harness: %v", err)
		}
		return file.New(tree, dir, nopLogger{})
	}
	for round := 0; round < 40; round++ {
		for k, name := range []string{"first", "second dir", "third"} {
			dir := filepath.Join(base, name)
			greeting := fmt.Sprintf("hello %d %d", round, k)
			if k == 1 {
				_, _ = load(filepath.Join(base, "broken"), bad) // may fail to load; must leave nothing behind
			}
			sf, err := load(dir, good(greeting))
			if s != nil {
				s.Eval()
				s.Class("spokfile_loaded_in_process")
				s.NonTrivial(fmt.Sprint("inproc", round, k))
			}
			if err != nil {
				return &rp.Fail{Sig: "valid-program-rejected", Msg: fmt.Sprintf("load %d in %s failed: %v", round*3+k, dir, err)}
			}
			if sf.Vars["J"] != filepath.Join(dir, "out", "x") || sf.Vars["JONE"] != filepath.Join(dir, "solo") {
				return &rp.Fail{Sig: "template-substitution", Msg: fmt.Sprintf("loaded in working directory %s (after loads from other directories in the same process): join(\"out\", \"x\") = %q, join(\"solo\") = %q", dir, sf.Vars["J"], sf.Vars["JONE"])}
			}
			cmds := sf.Tasks["show"].Commands
			want := []string{"echo " + greeting + " and " + filepath.Join(dir, "out", "x"), "echo plain words $HOME"}
			if len(cmds) != 2 || cmds[0] != want[0] || cmds[1] != want[1] {
				return &rp.Fail{Sig: "command-text-changed", Msg: fmt.Sprintf("load %d in %s: the commands of task show are %q, want %q", round*3+k, dir, cmds, want)}
			}
		}
	}
	return nil
}

func TestKill(t *testing.T) {
	s := ev.Open(t, "C10")
	b := newBox(t)
	rp.Check(t, s, "kill", genKill, func(c KillCase) *rp.Fail {
		if s.WantSample() {
			s.Sample(map[string]any{"spokfile": c.source(), "steps": c.Steps})
		}
		return execKill(s, b, c)
	})
}

// TestKillPrefixes: for fixed programs, every kill position and every byte prefix of the
// cache file a run wrote, each followed by every one-step continuation and an unforced run.
func TestKillPrefixes(t *testing.T) {
	s := ev.Open(t, "C10")
	b := newBox(t)
	progs := [][]KTask{
		{{Name: "A", Files: []string{"f1.txt"}}, {Name: "B", Files: []string{"f2.txt"}}},
		{{Name: "A", Files: []string{"f1.txt"}, Deps: []string{"B"}}, {Name: "B", Globs: []string{"*.txt"}}},
	}
	init := map[string]string{"f1.txt": "0", "f2.txt": "0"}
	run := func(tasks ...string) KStep { return KStep{Op: "run", Tasks: tasks, CutAbs: -1} }
	w := func(f, c string) KStep { return KStep{Op: "write", File: f, Content: c, CutAbs: -1} }
	conts := [][]KStep{{}, {w("f1.txt", "1")}, {w("f1.txt", "0")}, {w("f2.txt", "1")}, {w("f1.txt", "1"), w("f1.txt", "0")}, {w("extra.txt", "9")}}
	seen := map[string]bool{}
	one := func(c KillCase) {
		s.Eval()
		if f := execKill(s, b, c); f != nil {
			if s.IsKnown(f.Sig) {
				s.Known(f.Sig, c)
				return
			}
			if !seen[f.Sig] {
				seen[f.Sig] = true
				s.Violation("kill", f.Sig, f.Msg, f.Size, c)
			}
		}
	}
	step := 1
	if !ev.Thorough() {
		step = 7 // quick: every 7th prefix length; thorough: every byte
	}
	for pi, prog := range progs {
		prefix := []KStep{run("A", "B"), w("f1.txt", "1")}
		// kill positions: in A, in B
		// ... each in four environments: started in the project, started elsewhere with --spokfile,
		// and with the cache file / cache directory read-only for the duration of that run; and with the
		// victim's command failing instead of spok being killed
		type envT struct {
			elsewhere bool
			ro        string
		}
		for _, victim := range []string{"A", "B"} {
			for _, cont := range conts {
				for ei, e := range []envT{{}, {elsewhere: true}, {ro: "file"}, {ro: "dir"}} {
					for _, kill := range []bool{true, false} {
						for _, force := range []bool{false, true} {
							if force && (ei == 0 || !kill) && !ev.Thorough() {
								continue
							}
							bad := KStep{Op: "run", Tasks: []string{"A", "B"}, CutAbs: -1, Elsewhere: e.elsewhere, ROCache: e.ro, Force: force}
							if kill {
								bad.Kill = victim
							} else {
								bad.Fail = []string{victim}
							}
							steps := append(append([]KStep(nil), prefix...), bad)
							steps = append(steps, cont...)
							steps = append(steps, run("A", "B"))
							c := KillCase{Tasks: prog, Init: init, Steps: steps}
							if pi == 0 && victim == "A" && len(cont) == 0 && ei < 2 && kill {
								s.Sample(map[string]any{"spokfile": c.source(), "steps": c.Steps})
							}
							s.Class("enumerated_kill_position")
							one(c)
						}
					}
				}
			}
		}
		// the set a glob names becomes empty, a (normal / killed / failing) run happens on the empty
		// set, and the very same file comes back
		if pi == 0 {
			gprog := []KTask{{Name: "A", Globs: []string{"*.c"}}, {Name: "B", Files: []string{"f2.txt"}, Deps: []string{"A"}}}
			ginit := map[string]string{"f1.txt": "0", "f2.txt": "0", "g1.c": "0"}
			for _, mid := range []KStep{{Op: "run", Tasks: []string{"B"}, CutAbs: -1}, {Op: "run", Tasks: []string{"A", "B"}, Kill: "A", CutAbs: -1}, {Op: "run", Tasks: []string{"B"}, Fail: []string{"A"}, CutAbs: -1}, {Op: "run", Tasks: []string{"B"}, Force: true, CutAbs: -1}, {Op: "run", Tasks: []string{"B"}, Kill: "B", CutAbs: -1}} {
				steps := []KStep{run("B"), {Op: "delete", File: "g1.c", CutAbs: -1}, mid, w("g1.c", "0"), run("B"), run("A", "B")}
				s.Class("enumerated_emptied_glob_set")
				one(KillCase{Tasks: gprog, Init: ginit, Steps: steps})
			}
		}
		// three matched files on two CPUs (more files than hash workers): every file counts, also the last
		if pi == 0 {
			tprog := []KTask{{Name: "A", Globs: []string{"*.txt"}}, {Name: "B", Files: []string{"f2.txt"}, Deps: []string{"A"}}}
			tinit := map[string]string{"f1.txt": "0", "f2.txt": "0", "zlast.txt": "0", "m.txt": "0"}
			for _, cpus := range []string{"0,1", "0", "0,1,2"} {
				for _, f := range []string{"zlast.txt", "f1.txt", "m.txt"} {
					for _, mid := range []KStep{{Op: "run", Tasks: []string{"B"}, Kill: "A", CutAbs: -1}, {Op: "run", Tasks: []string{"B"}, Kill: "B", CutAbs: -1}} {
						steps := []KStep{run("B"), mid, w(f, "1"), run("B"), w(f, "0"), run("B")}
						s.Class("enumerated_more_files_than_cpus")
						one(KillCase{Tasks: tprog, Init: tinit, Steps: steps, Cpus: cpus})
					}
				}
			}
		}
		// every byte prefix of the cache file after the second run (length probed once: <= 200 bytes)
		for k := 0; k < 200; k += step {
			for ci, cont := range conts {
				if !ev.Thorough() && ci%2 == 1 {
					continue
				}
				steps := append(append([]KStep(nil), prefix...), run("A", "B"), KStep{Op: "truncate", CutAbs: k})
				steps = append(steps, cont...)
				s.Class("enumerated_cache_prefix")
				one(KillCase{Tasks: prog, Init: init, Steps: append(append([]KStep(nil), steps...), run("A", "B"))})
				if ci == 2 || ev.Thorough() {
					// the same with the results asked for as JSON / with output silenced
					for _, fl := range [][]string{{"--json"}, {"--quiet"}} {
						final := run("A", "B")
						final.Flags = fl
						s.Class("enumerated_cache_prefix_reporting_flags")
						one(KillCase{Tasks: prog, Init: init, Steps: append(append([]KStep(nil), steps...), final)})
					}
				}
			}
		}
	}
	if s.Failed() {
		t.Fatal("violations recorded")
	}
}

// TestKillSyscalls: kill -9 on entering the N-th openat / write / rename / mkdir / unlink
// system call of a run, for every N until the run survives — crash points between any two
// file-system operations of spok (strace fault injection) — each followed by continuations
// of edits/reverts and an unforced run.
func TestKillSyscalls(t *testing.T) {
	s := ev.Open(t, "C10")
	if stracePath == "" {
		s.Note("strace not available: system-call level crash points skipped")
		s.Eval()
		return
	}
	b := newBox(t)
	progs := [][]KTask{
		{{Name: "A", Files: []string{"f1.txt"}}, {Name: "B", Files: []string{"f2.txt"}}},
		{{Name: "A", Files: []string{"f1.txt"}, Deps: []string{"B"}}, {Name: "B", Globs: []string{"*.txt"}}},
		{{Name: "A", Files: []string{"f1.txt"}}}, // a cache that holds one digest only
	}
	init := map[string]string{"f1.txt": "0", "f2.txt": "0"}
	w := func(f, c string) KStep { return KStep{Op: "write", File: f, Content: c, CutAbs: -1} }
	conts := [][]KStep{{}, {w("f1.txt", "0")}, {w("f2.txt", "1")}, {w("f1.txt", "0"), w("f2.txt", "0")}}
	if !ev.Thorough() {
		conts = conts[:2]
	}
	lo, hi := ev.RangeFromEnv() // index into (program, syscall, forced?)
	sysNames := []string{"openat", "write", "renameat", "renameat2", "mkdirat", "unlinkat", "fsync", "close"}
	seen := map[string]bool{}
	for idx := lo; idx < hi && idx < uint64(2*len(progs)*len(sysNames)); idx++ {
		forced := idx%2 == 1
		prog, sys := progs[(idx/2)/uint64(len(sysNames))], sysNames[(idx/2)%uint64(len(sysNames))]
		var all []string
		for _, t := range prog {
			all = append(all, t.Name)
		}
		run := func() KStep { return KStep{Op: "run", Tasks: all, CutAbs: -1} }
		for n := 1; n <= 400; n++ {
			killedAny := false
			for ci, cont := range conts {
				steps := []KStep{run(), w("f1.txt", "1"), w("f2.txt", "2"), {Op: "run", Tasks: all, Force: forced, Sys: sys, When: n, CutAbs: -1}}
				steps = append(steps, cont...)
				steps = append(steps, run())
				c := KillCase{Tasks: prog, Init: init, Steps: steps}
				s.Eval()
				s.Class("enumerated_syscall_crash_point")
				if n == 3 && ci == 0 {
					s.Sample(map[string]any{"spokfile": c.source(), "steps": c.Steps})
				}
				f := execKill(s, b, c)
				// lastRunKilled belongs to the final (unkilled) run; find out from the step under strace instead
				if f != nil {
					if s.IsKnown(f.Sig) {
						s.Known(f.Sig, c)
					} else if !seen[f.Sig] {
						seen[f.Sig] = true
						s.Violation("kill", f.Sig, f.Msg, f.Size, c)
					}
				}
				killedAny = killedAny || killedAtStep
			}
			if !killedAny {
				break // n is beyond the last call of this kind
			}
		}
	}
	if s.Failed() {
		t.Fatal("violations recorded")
	}
}

func TestClean(t *testing.T) {
	s := ev.Open(t, "C12")
	b := newBox(t)
	rp.Check(t, s, "clean", genClean, func(c CleanCase) *rp.Fail {
		if s.WantSample() {
			s.Sample(map[string]any{"spokfile": c.source(), "tree": c.Tree})
		}
		return execClean(s, b, c)
	})
}

// TestCleanTemplates: the small corners of --clean — no outputs at all, only a glob that matches
// nothing, only an output that does not exist, a single output — with and without a cache, a clean
// task, a second task, and under every way of starting spok.
func TestCleanTemplates(t *testing.T) {
	s := ev.Open(t, "C12")
	b := newBox(t)
	seen := map[string]bool{}
	type outs struct {
		lit, globs []string
		named      []NamedOut
	}
	// hidden entries in the project root next to matches of slash-less output globs
	for _, g := range [][]string{{"*.tmp"}, {"*"}, {"*.tmp", "b*/*"}, {"**/*.tmp"}} {
		for _, inv := range []string{"", "rel-parent"} {
			c := CleanCase{Tree: []string{".git/config", ".a.tmp", ".cache.d/x.tmp", "notes.tmp", "z.tmp", "build/x.o", "src/t.tmp", "README.md"}, Globs: g, NTasks: 1, Invoke: inv}
			s.Eval()
			s.Class("enumerated_small_clean_cases")
			if f := execClean(s, b, c); f != nil && !seen[f.Sig] {
				seen[f.Sig] = true
				s.Violation("clean", f.Sig, f.Msg, f.Size, c)
			}
		}
	}
	for _, o := range []outs{{}, {globs: []string{"none/*.zzz"}}, {lit: []string{"missing/file"}}, {lit: []string{"bin/app"}}, {named: []NamedOut{{"NOPE", `"nothing/here"`, "nothing/here"}}}, {globs: []string{"build/*.o"}}} {
		for _, pre := range []bool{true, false} {
			for _, cleanTask := range []bool{false, true} {
				for nt := 1; nt <= 2; nt++ {
					for _, inv := range []string{"", "rel-dot", "rel-parent", "abs-elsewhere"} {
						c := CleanCase{Tree: []string{"bin/app", "build/x.o", "src/main.c", "README.md"}, Literal: o.lit, Named: o.named, Globs: o.globs, PreCache: pre, CleanTask: cleanTask, NTasks: nt, Invoke: inv}
						s.Eval()
						s.Class("enumerated_small_clean_cases")
						if f := execClean(s, b, c); f != nil && !seen[f.Sig] {
							seen[f.Sig] = true
							s.Violation("clean", f.Sig, f.Msg, f.Size, c)
						}
					}
				}
			}
		}
	}
	if s.Failed() {
		t.Fatal("violations recorded")
	}
}

func TestVars(t *testing.T) {
	s := ev.Open(t, "C13")
	b := newBox(t)
	rp.Check(t, s, "vars", genVars, func(c VarsCase) *rp.Fail {
		if s.WantSample() {
			src, _ := c.source()
			s.Sample(map[string]any{"spokfile": src, "ambient": c.Ambient, "dotenv": c.DotEnv, "nested": c.Nested})
		}
		return execVars(s, b, c)
	})
}
