package cli

import (
	"encoding/json"
	"fmt"
	"os"
	"path/filepath"
	"testing"
	"time"

	"verif/ev"
	"verif/rp"
	"verif/sandbox"
)

func id() string { return os.Getenv("VERIF_ID") }

var rules = map[string]string{
	"C12": "random project trees (files inside and outside declared outputs, nested directories, pre-existing and missing outputs, an optional existing .spok/, bystander files beside and above the project) x spokfiles declaring up to 5 outputs of each kind: literal (incl. '', '.', './', '..', '../..', 'spokfile', directories, missing paths), named by variables (strings and join(...), incl. '', '.', join('..')), globs (matching several files, nested, nothing); with probability 1/4 a task named clean. `spok --clean` runs in the uid-dropped sandbox; oracle: whole-sandbox snapshot before/after — frame condition, protected set (project dir, ancestors, spokfile), completeness when spok exits 0. Non-trivial: a designated path exists before and a non-designated file exists in the project; distinct by (tree, spokfile)",
	"C13": "generated variable sets (string values over printable ASCII without quotes incl. blanks, $, {, }, {{, #, backslash; exec(printf ...) with padded / multi-line / empty output and failing exec; join of 0-4 segments incl. '.', '..', '', absolute) with names that collide with the ambient environment, a generated .env, both or neither; one task printing each variable through {{.NAME}} and through $NAME, run with --json from the project root or a nested directory in the sandbox; oracle: direct textual substitution, an independent path normaliser, the harness's own knowledge of what printf prints. Non-trivial: a variable whose name is also set, differently, in the ambient environment or .env and is read through $NAME; distinct by (spokfile, environment, cwd)",
	"C17": "every directory chain of depth <= 3 (quick) / 4 (thorough) where each level independently holds {nothing, an entry sorting before and/or after 'spokfile', a regular spokfile (alone or after an earlier entry), a directory named spokfile (empty or holding a regular spokfile)} and child directories named 'd' or 't' x every start level x stop in {each level, an unrelated directory}; file.Find is called in a watchdogged shard (10 s stall limit, normal < 1 ms) and compared with an Lstat walk; plus `spok --show` from nested directories in the sandbox. Non-trivial: the answer is at another level than start, or there is none; distinct by triple",
}

func workBase(t testing.TB) string {
	base := os.Getenv("VERIF_WORK")
	if base == "" {
		base = os.TempDir()
	}
	return base
}

func newBox(t testing.TB) *sandbox.Box {
	bin := os.Getenv("VERIF_SPOK")
	if bin == "" {
		t.Fatal("VERIF_SPOK not set")
	}
	b, err := sandbox.New(workBase(t), bin)
	if err != nil {
		t.Fatal(err)
	}
	t.Cleanup(b.Close)
	// the private copy must be executable where the scratch space lives (tmpfs may be noexec)
	if r := b.Run(b.Proj, nil, 20*time.Second, "--version"); r.Exit == -1 {
		b.Spok = bin
	}
	return b
}

func TestPlan(t *testing.T) {
	p := ev.Plan{Property: id(), Level: "exploration", Rule: rules[id()]}
	p.Assumptions = []string{
		"checks run as root so that spok can be executed as uid 65534 inside a sandbox tree; nothing outside the sandbox is writable for it",
	}
	binShards := func(test string, quickN, quickChecks, thorN, thorChecks int) {
		n, c := quickN, quickChecks
		if ev.Thorough() {
			n, c = thorN, thorChecks
		}
		sh := ev.RapidShards("bin", test, n, c, nil)
		for i := range sh {
			sh[i].TimeoutS = 3600
		}
		p.Shards = append(p.Shards, sh...)
	}
	switch id() {
	case "C13":
		binShards("^TestVars$", 16, 150, 16, 1300)
	case "C12":
		binShards("^TestClean$", 16, 60, 16, 1300)
	case "C17":
		p.CrashIsViolation = true
		p.ReplayKindCrash = "find-inflight"
		p.Exhaustive = true
		total := findTotal()
		sh := ev.RangeShards("enum", "^TestFindEnum$", total, total/32+1, nil)
		for i := range sh {
			sh[i].TimeoutS = 1200
		}
		p.Shards = append(p.Shards, sh...)
	}
	if err := ev.WritePlan(p); err != nil {
		t.Fatal(err)
	}
}

func findBase(t testing.TB) string {
	dir, err := os.MkdirTemp(workBase(t), "find-")
	if err != nil {
		t.Fatal(err)
	}
	t.Cleanup(func() { os.RemoveAll(dir) })
	// precondition: no ancestor of the base holds a spokfile
	for d := dir; ; d = filepath.Dir(d) {
		if st, err := os.Lstat(filepath.Join(d, "spokfile")); err == nil && !st.IsDir() {
			t.Fatalf("harness precondition: %s exists above the scratch directory", filepath.Join(d, "spokfile"))
		}
		if d == filepath.Dir(d) {
			break
		}
	}
	return filepath.Join(dir, "base")
}

func TestFindEnum(t *testing.T) {
	s := ev.Open(t, "C17")
	s.Watchdog(10*time.Second, 4<<30)
	defer s.Done()
	base := findBase(t)
	lo, hi := ev.RangeFromEnv()
	seen := map[string]bool{}
	lastTree := ""
	for idx := lo; idx < hi; idx++ {
		c := findCase(idx)
		if k := c.treeKey(); k != lastTree {
			if err := c.build(base); err != nil {
				t.Fatal(err)
			}
			lastTree = k
		}
		data, _ := json.Marshal(c)
		s.Progress(idx, data)
		s.Tick()
		s.Eval()
		if idx%7919 == 0 {
			s.Sample(c)
		}
		if f := execFind(s, base, c); f != nil {
			if s.IsKnown(f.Sig) {
				s.Known(f.Sig, c)
				continue
			}
			if !seen[f.Sig] {
				seen[f.Sig] = true
				s.Violation("find", f.Sig, f.Msg, f.Size, c)
			}
		}
	}
	s.Extra("enum_max_depth", findMaxDepth())
	if s.Failed() {
		t.Fatal("violations recorded")
	}
}

// TestReplay re-executes one saved case.
func TestReplay(t *testing.T) {
	data, err := os.ReadFile(os.Getenv("VERIF_REPLAY"))
	if err != nil {
		t.Skip("no replay file")
	}
	var v ev.Violation
	if err := json.Unmarshal(data, &v); err != nil {
		t.Fatalf("bad replay file: %v", err)
	}
	raw := v.Case
	if len(v.Kind) > 9 && v.Kind[len(v.Kind)-9:] == "-inflight" {
		var w struct {
			Text string `json:"payload_text"`
		}
		if err := json.Unmarshal(v.Case, &w); err != nil {
			t.Fatal(err)
		}
		raw = []byte(w.Text)
	}
	var f *rp.Fail
	switch v.Kind {
	case "find", "find-inflight":
		var c FindCase
		if err := json.Unmarshal(raw, &c); err != nil {
			t.Fatal(err)
		}
		base := findBase(t)
		if err := c.build(base); err != nil {
			t.Fatal(err)
		}
		f = execFind(nil, base, c)
	default:
		f = replayOther(t, v, raw)
	}
	if f != nil {
		t.Fatalf("%s [%s]", f.Msg, f.Sig)
	}
}

func replayOther(t *testing.T, v ev.Violation, raw []byte) *rp.Fail {
	switch v.Kind {
	case "clean":
		var c CleanCase
		if err := json.Unmarshal(raw, &c); err != nil {
			t.Fatal(err)
		}
		return execClean(nil, newBox(t), c)
	case "vars":
		var c VarsCase
		if err := json.Unmarshal(raw, &c); err != nil {
			t.Fatal(err)
		}
		return execVars(nil, newBox(t), c)
	}
	t.Fatalf("unknown replay kind %q", v.Kind)
	return nil
}

func TestClean(t *testing.T) {
	s := ev.Open(t, "C12")
	b := newBox(t)
	rp.Check(t, s, "clean", genClean, func(c CleanCase) *rp.Fail {
		if s.WantSample() {
			s.Sample(map[string]any{"spokfile": c.source(), "tree": c.Tree})
		}
		return execClean(s, b, c)
	})
}

func TestVars(t *testing.T) {
	s := ev.Open(t, "C13")
	b := newBox(t)
	rp.Check(t, s, "vars", genVars, func(c VarsCase) *rp.Fail {
		if s.WantSample() {
			src, _ := c.source()
			s.Sample(map[string]any{"spokfile": src, "ambient": c.Ambient, "dotenv": c.DotEnv, "nested": c.Nested})
		}
		return execVars(s, b, c)
	})
}

var _ = fmt.Sprint
