package cli

import (
	"fmt"
	"os"
	"path/filepath"
	"sort"
	"strings"

	"pgregory.net/rapid"

	"verif/ev"
	"verif/rp"
	"verif/sandbox"
)

// payload is a printf argument together with what it prints.
type payload struct {
	Arg  string `json:"arg"`
	Want string `json:"want"`
}

// RCmd is one command of a C20 task.
type RCmd struct {
	Out    payload `json:"out"`
	Err    payload `json:"err"`
	UseVar string  `json:"use_var,omitempty"` // {{.NAME}} printed in front of the stdout payload
	// Spaced: the reference is written with blanks inside the braces ("{{ .NAME }}"), which the
	// template syntax spok documents its references in allows
	Spaced bool `json:"spaced,omitempty"`
	// Tail: the command ends in ": {{.PADR}}", a reference at the very edge of the command whose value ends in
	// blanks, so that the interpolated text ends in blanks too (needs ReportCase.EdgePad)
	Tail bool `json:"tail,omitempty"`
}

// RTask is a task of a C20 program.
type RTask struct {
	Name    string   `json:"name"`
	Doc     string   `json:"doc,omitempty"`
	FileDep bool     `json:"file_dep"`
	Deps    []string `json:"deps,omitempty"`
	Cmds    []RCmd   `json:"cmds"`
	// OutVar: the task declares this variable as its (named) output; a variable that is also an
	// output is still listed and substituted with the value the spokfile gives it
	OutVar string `json:"out_var,omitempty"`
}

// RAction is one invocation of a C20 case.
type RAction struct {
	Kind  string   `json:"kind"` // json quiet show vars noargs
	Tasks []string `json:"tasks,omitempty"`
	// ROCache (json / quiet): the cache file is read-only while this invocation lasts. spok may stop
	// with an error about its cache; a run that reports success reports all of it.
	ROCache bool `json:"ro_cache,omitempty"`
	// BadCache (show / vars): while this invocation lasts the cache file is damaged ("cut": the first half
	// of its bytes, as after a full disk; "dir": a directory of that name). Listing what the spokfile
	// defines has nothing to do with the cache.
	BadCache string `json:"bad_cache,omitempty"`
}

// ReportCase is a C20 case.
type ReportCase struct {
	// ProjDir names the directory holding the spokfile ("" = proj)
	ProjDir string `json:"proj_dir,omitempty"`
	// Invoke: how spok is pointed at the project (sandbox.Box.Invoke)
	Invoke string `json:"invoke,omitempty"`
	// Outputs: "files" = standard output and error are regular files (sandbox.Box.FileOutputs)
	Outputs string      `json:"outputs,omitempty"`
	Vars    [][2]string `json:"vars"`
	Tasks   []RTask     `json:"tasks"`
	Actions []RAction   `json:"actions"`
	// DotEnv: a .env file sits next to the spokfile (it changes the environment of commands, not
	// what spok prints)
	DotEnv bool `json:"dotenv,omitempty"`
	// Nested: spok is started in <project>/docs ("plain"), which may itself hold a directory
	// called spokfile ("decoy"); the spokfile is found by climbing
	Nested string `json:"nested,omitempty"`
	// JoinPair: two more variables, join("my docs", "notes") and join("my", "docs notes") — different
	// argument lists that print alike; --vars lists each with its own value
	JoinPair bool `json:"join_pair,omitempty"`
	// EdgePad: one more variable, PADR := "abc  ", referenced at the end of the commands marked Tail
	EdgePad bool `json:"edge_pad,omitempty"`
}

var reportNames = []string{"default", "build", "lint", "test", "zeta", "Apple", "coverage", "integrationtests"} // also lengths 8 and 16: a full tab stop
var reportDocs = []string{"", "Run the thing", "builds everything now", "x", "Lint all the Go code", "docs with  two spaces", "Reach 100% statement coverage", "%s %d %v"}
var payloads = []payload{
	{"", ""}, {"hello", "hello"}, {"two words", "two words"}, {`line1\nline2\n`, "line1\nline2\n"}, {"trail  ", "trail  "},
	{`x=1;y`, "x=1;y"}, {`tab\there`, "tab\there"}, {`\n`, "\n"}, {"a|b&c", "a|b&c"}, {"  lead", "  lead"},
	{`one\r\ntwo\r\n`, "one\r\ntwo\r\n"}, {`cr\rmid`, "cr\rmid"}, {`tail\r\n`, "tail\r\n"},
}
var reportVarNames = []string{"VERSION", "NAME", "other", "FLAG_X", "Zed", "GIT_HASH", "RELEASE_CODENAME"}
var reportVarValues = []string{"0.3.0", "spok", "a b", "", "--flag=1", "x/y", "50%", "%d%%", "fish & chips", "<in >out", "1.2+dev", "a=b&c=d", "{not a ref}", "$HOME", "back\\slash"}

func genReport(t *rapid.T) ReportCase {
	c := genReportBody(t)
	c.ProjDir = genProjDir(t)
	c.Invoke = genInvoke(t)
	c.Outputs = genOutputs(t)
	c.DotEnv = rapid.IntRange(0, 2).Draw(t, "dotenv") == 0
	c.JoinPair = rapid.IntRange(0, 3).Draw(t, "join_pair") == 0
	if c.Invoke == "" && rapid.IntRange(0, 2).Draw(t, "nested") == 0 {
		c.Nested = rapid.SampledFrom([]string{"plain", "decoy"}).Draw(t, "nested_kind")
	}
	if rapid.IntRange(0, 2).Draw(t, "edge_pad") == 0 {
		c.EdgePad = true
		for ti := range c.Tasks {
			for ci := range c.Tasks[ti].Cmds {
				c.Tasks[ti].Cmds[ci].Tail = rapid.Bool().Draw(t, "tail_reference")
			}
		}
	}
	return c
}

func genReportBody(t *rapid.T) ReportCase {
	c := ReportCase{}
	nv := rapid.IntRange(0, 5).Draw(t, "nvars")
	vnames := rapid.Permutation(reportVarNames).Draw(t, "varnames")
	for i := 0; i < nv; i++ {
		c.Vars = append(c.Vars, [2]string{vnames[i], rapid.SampledFrom(reportVarValues).Draw(t, "varvalue")})
	}
	n := rapid.IntRange(1, 5).Draw(t, "ntasks")
	names := rapid.Permutation(reportNames[1:]).Draw(t, "tasknames")
	if rapid.IntRange(0, 2).Draw(t, "has_default") == 0 {
		names = append([]string{"default"}, names...)
	}
	for i := 0; i < n; i++ {
		rt := RTask{Name: names[i], Doc: rapid.SampledFrom(reportDocs).Draw(t, "doc"), FileDep: rapid.Bool().Draw(t, "filedep")}
		for j := i + 1; j < n; j++ {
			if rapid.IntRange(0, 2).Draw(t, "dep") == 2 {
				rt.Deps = append(rt.Deps, names[j])
			}
		}
		if nv > 0 && rapid.IntRange(0, 2).Draw(t, "named_output") == 0 {
			rt.OutVar = c.Vars[rapid.IntRange(0, nv-1).Draw(t, "which_output")][0]
		}
		nc := rapid.IntRange(0, 4).Draw(t, "ncmds")
		for k := 0; k < nc; k++ {
			rc := RCmd{Out: rapid.SampledFrom(payloads).Draw(t, "out"), Err: rapid.SampledFrom(payloads).Draw(t, "err")}
			if nv > 0 && rapid.IntRange(0, 2).Draw(t, "usevar") == 2 {
				rc.UseVar = c.Vars[rapid.IntRange(0, nv-1).Draw(t, "whichvar")][0]
				rc.Spaced = rapid.IntRange(0, 3).Draw(t, "spaced_reference") == 0
			}
			rt.Cmds = append(rt.Cmds, rc)
		}
		c.Tasks = append(c.Tasks, rt)
	}
	na := rapid.IntRange(1, 5).Draw(t, "nactions")
	for i := 0; i < na; i++ {
		a := RAction{Kind: rapid.SampledFrom([]string{"json", "json", "json", "quiet", "show", "vars", "noargs"}).Draw(t, "action")}
		if a.Kind == "json" || a.Kind == "quiet" {
			perm := rapid.Permutation(names[:n]).Draw(t, "reqorder")
			a.Tasks = append([]string(nil), perm[:rapid.IntRange(1, n).Draw(t, "nreq")]...)
			a.ROCache = i > 0 && rapid.IntRange(0, 5).Draw(t, "ro_cache") == 0
		}
		if (a.Kind == "show" || a.Kind == "vars") && i > 0 && rapid.IntRange(0, 2).Draw(t, "bad_cache") == 0 {
			a.BadCache = rapid.SampledFrom([]string{"cut", "dir"}).Draw(t, "bad_cache_kind")
		}
		c.Actions = append(c.Actions, a)
	}
	return c
}

// edgePadValue ends in blanks: a command that ends in a reference to it has an interpolated text that ends in blanks
const edgePadValue = "abc  "

func rmarker(ti, ci int) string { return fmt.Sprintf("r%dc%d", ti, ci) }

func (c ReportCase) cmdText(ti, ci int, interpolated bool, vars map[string]string) string {
	rc := c.Tasks[ti].Cmds[ci]
	pre := ""
	if rc.UseVar != "" {
		// the value is an argument of printf, never part of its format string
		if interpolated {
			pre = "printf '%s' '" + vars[rc.UseVar] + "' && "
		} else {
			pre = "printf '%s' '{{." + rc.UseVar + "}}' && "
			if rc.Spaced {
				pre = "printf '%s' '{{ ." + rc.UseVar + " }}' && "
			}
		}
	}
	tail := ""
	if rc.Tail && c.EdgePad {
		tail = " && : {{.PADR}}"
		if interpolated {
			tail = " && : " + edgePadValue
		}
	}
	return fmt.Sprintf("echo %s >> $LOG && %sprintf '%s' && printf '%s' >&2%s", rmarker(ti, ci), pre, rc.Out.Arg, rc.Err.Arg, tail)
}

func (c ReportCase) source() string {
	var b strings.Builder
	for _, v := range c.Vars {
		fmt.Fprintf(&b, "%s := \"%s\"\n", v[0], v[1])
	}
	if c.EdgePad {
		b.WriteString("PADR := \"" + edgePadValue + "\"\n")
	}
	if c.JoinPair {
		b.WriteString("OUTDIR := join(\"my docs\", \"notes\")\nSRCDIR := join(\"my\", \"docs notes\")\n")
	}
	b.WriteString("\n")
	for ti, t := range c.Tasks {
		if t.Doc != "" {
			fmt.Fprintf(&b, "# %s\n", t.Doc)
		}
		var args []string
		if t.FileDep {
			args = append(args, `"in.txt"`)
		}
		args = append(args, t.Deps...)
		if t.OutVar != "" {
			fmt.Fprintf(&b, "task %s(%s) -> %s {\n", t.Name, strings.Join(args, ", "), t.OutVar)
		} else {
			fmt.Fprintf(&b, "task %s(%s) {\n", t.Name, strings.Join(args, ", "))
		}
		for ci := range t.Cmds {
			b.WriteString("    " + c.cmdText(ti, ci, false, nil) + "\n")
		}
		b.WriteString("}\n\n")
	}
	return b.String()
}

func (c ReportCase) index() map[string]int {
	m := map[string]int{}
	for i, t := range c.Tasks {
		m[t.Name] = i
	}
	return m
}

func (c ReportCase) closure(req []string) map[string]bool {
	idx := c.index()
	out := map[string]bool{}
	var visit func(n string)
	visit = func(n string) {
		if out[n] {
			return
		}
		out[n] = true
		for _, d := range c.Tasks[idx[n]].Deps {
			visit(d)
		}
	}
	for _, r := range req {
		visit(r)
	}
	return out
}

// checkRun verifies the log of one run against the skip model and returns the executed tasks in order.
func (c ReportCase) checkRun(desc string, size int, req []string, log []string, done map[string]bool) (*rp.Fail, []string) {
	idx := c.index()
	cl := c.closure(req)
	// expected executed commands per task
	var executedOrder []string
	pos := 0
	seenTask := map[string]bool{}
	for pos < len(log) {
		// find the task this marker belongs to
		var ti, ci int
		if _, err := fmt.Sscanf(log[pos], "r%dc%d", &ti, &ci); err != nil || ti >= len(c.Tasks) {
			return &rp.Fail{Sig: "harness", Msg: "unreadable log line " + log[pos]}, nil
		}
		t := c.Tasks[ti]
		if seenTask[t.Name] {
			return &rp.Fail{Sig: "task-ran-twice", Size: size, Msg: fmt.Sprintf("%s: commands of task %s ran in two stretches (log %v)", desc, t.Name, log)}, nil
		}
		seenTask[t.Name] = true
		for k := range t.Cmds {
			if pos+k >= len(log) || log[pos+k] != rmarker(ti, k) {
				return &rp.Fail{Sig: "commands-out-of-order", Size: size, Msg: fmt.Sprintf("%s: commands of task %s did not run completely and in order (log %v)", desc, t.Name, log)}, nil
			}
		}
		pos += len(t.Cmds)
		executedOrder = append(executedOrder, t.Name)
	}
	for name := range cl {
		t := c.Tasks[idx[name]]
		wantSkip := t.FileDep && done[name]
		ran := seenTask[name]
		if len(t.Cmds) == 0 {
			continue
		}
		if wantSkip && ran {
			return &rp.Fail{Sig: "harness-model", Size: size, Msg: fmt.Sprintf("%s: task %s was expected to be skipped (C02's subject) but ran", desc, name)}, nil
		}
		if !wantSkip && !ran {
			return &rp.Fail{Sig: "task-not-run", Size: size, Msg: fmt.Sprintf("%s: task %s is in the requested closure and not up to date, but none of its commands ran (log %v)", desc, name, log)}, nil
		}
	}
	for name := range seenTask {
		if !cl[name] {
			return &rp.Fail{Sig: "unrequested-task-ran", Size: size, Msg: fmt.Sprintf("%s: task %s ran but is not in the closure of %v", desc, name, req)}, nil
		}
	}
	return nil, executedOrder
}

func tableRows(out string) [][]string {
	var rows [][]string
	for _, l := range strings.Split(sandbox.Strip(out), "\n") {
		if f := strings.Fields(l); len(f) > 0 {
			rows = append(rows, f)
		}
	}
	return rows
}

func execReport(s *ev.Shard, b *sandbox.Box, c ReportCase) *rp.Fail {
	if err := b.ResetFor(c.ProjDir, c.Invoke); err != nil {
		return &rp.Fail{Sig: "harness", Msg: err.Error()}
	}
	b.FileOutputs = c.Outputs == "files"
	src := c.source()
	files := map[string]string{"spokfile": src, "in.txt": "input"}
	if c.DotEnv {
		files[".env"] = "FROM_DOTENV=yes\nOTHER_ONE=\"two words\"\n"
	}
	cwd := b.Proj
	switch c.Nested {
	case "plain":
		files["docs/"] = ""
		cwd = filepath.Join(b.Proj, "docs")
	case "decoy":
		files["docs/spokfile/example.txt"] = "not a spokfile"
		cwd = filepath.Join(b.Proj, "docs")
	}
	if err := writeProject(b, b.Proj, files); err != nil {
		return &rp.Fail{Sig: "harness", Msg: err.Error()}
	}
	logPath := filepath.Join(b.Home, "run.log")
	env := []string{"LOG=" + logPath}
	vars := map[string]string{}
	for _, v := range c.Vars {
		vars[v[0]] = v[1]
	}
	idx := c.index()
	size := len(c.Tasks)*3 + len(c.Actions)*2 + len(c.Vars)
	for _, t := range c.Tasks {
		size += len(t.Cmds)
	}
	done := map[string]bool{} // tasks with a recorded successful run
	hasDefault := false
	for _, t := range c.Tasks {
		hasDefault = hasDefault || t.Name == "default"
	}
	sawSkip := false

	markDone := func(req []string) {
		for name := range c.closure(req) {
			done[name] = true
		}
	}
	showExpect := func(desc string, out string) *rp.Fail {
		rows := tableRows(out)
		// header: "Tasks defined in <path>:" then "Name Description"
		if len(rows) < 2 || rows[0][0] != "Tasks" || rows[1][0] != "Name" {
			return &rp.Fail{Sig: "show-header", Size: size, Msg: fmt.Sprintf("%s: unexpected listing header:\n%s", desc, out)}
		}
		var names []string
		for _, t := range c.Tasks {
			names = append(names, t.Name)
		}
		sort.Strings(names)
		body := rows[2:]
		if len(body) != len(names) {
			return &rp.Fail{Sig: "show-rows", Size: size, Msg: fmt.Sprintf("%s: %d tasks defined but %d rows listed:\n%s", desc, len(names), len(body), out)}
		}
		for i, n := range names {
			wantDoc := strings.Join(strings.Fields(c.Tasks[idx[n]].Doc), " ")
			if body[i][0] != n || strings.Join(body[i][1:], " ") != wantDoc {
				return &rp.Fail{Sig: "show-rows", Size: size, Msg: fmt.Sprintf("%s: row %d should be task %q with docstring %q, got %v:\n%s", desc, i, n, wantDoc, body[i], out)}
			}
		}
		return nil
	}

	for ai, a := range c.Actions {
		_ = os.Remove(logPath)
		desc := fmt.Sprintf("spokfile:\n%s(.env present: %v, started in: %s) action %d of %v", src, c.DotEnv, map[string]string{"": "the project", "plain": "docs/", "decoy": "docs/ (which holds a directory called spokfile)"}[c.Nested], ai, c.Actions)
		restoreCache := func() {}
		if a.BadCache != "" && (a.Kind == "show" || a.Kind == "vars") {
			cp := filepath.Join(b.Proj, ".spok", "cache.json")
			if data, err := os.ReadFile(cp); err == nil {
				if a.BadCache == "dir" {
					_ = os.Remove(cp)
					_ = os.Mkdir(cp, 0o755)
				} else {
					_ = os.WriteFile(cp, data[:len(data)/2], 0o644)
				}
				_ = b.Own()
				restoreCache = func() {
					_ = os.RemoveAll(cp)
					_ = os.WriteFile(cp, data, 0o644)
					_ = b.Own()
				}
				desc += fmt.Sprintf(" [cache file damaged for this invocation: %s]", a.BadCache)
			}
		}
		switch a.Kind {
		case "json", "quiet":
			flag := "--" + a.Kind
			cachePath := filepath.Join(b.Proj, ".spok", "cache.json")
			if a.ROCache {
				_ = os.Chmod(cachePath, 0o444)
			}
			r := b.Run(cwd, env, runTimeout, append([]string{flag}, a.Tasks...)...)
			if a.ROCache {
				_ = os.Chmod(cachePath, 0o644)
			}
			if r.TimedOut {
				return &rp.Fail{Sig: "harness", Msg: "spok timed out"}
			}
			if a.ROCache && r.Exit != 0 && strings.Contains(strings.ToLower(sandbox.Strip(r.Stderr)), "cache") {
				// refused for want of a writable cache: what ran is unknown to the skip model from here on
				if s != nil {
					s.Class("run_refused_unwritable_cache")
				}
				return nil
			}
			if r.Exit != 0 {
				return &rp.Fail{Sig: "valid-run-failed", Size: size, Msg: fmt.Sprintf("%s: `spok %s %v` failed: %s", desc, flag, a.Tasks, sandbox.Strip(r.Stderr))}
			}
			log := readLog(logPath)
			f, executed := c.checkRun(desc, size, a.Tasks, log, done)
			if f != nil {
				return f
			}
			if a.Kind == "quiet" {
				if r.Stdout != "" {
					return &rp.Fail{Sig: "quiet-not-quiet", Size: size, Msg: fmt.Sprintf("%s: --quiet printed to standard output: %q", desc, r.Stdout)}
				}
				markDone(a.Tasks)
				continue
			}
			results, ok := parseJSON(r.Stdout)
			if !ok {
				return &rp.Fail{Sig: "json-not-single-document", Size: size, Msg: fmt.Sprintf("%s: standard output is not exactly one JSON document: %q", desc, r.Stdout)}
			}
			cl := c.closure(a.Tasks)
			seen := map[string]bool{}
			var execFromJSON []string
			posOf := map[string]int{}
			for ri, tr := range results {
				if seen[tr.Task] || !cl[tr.Task] {
					return &rp.Fail{Sig: "json-task-list", Size: size, Msg: fmt.Sprintf("%s: task %q listed twice or not part of the run; tasks of the run are %v; json: %s", desc, tr.Task, keys(cl), r.Stdout)}
				}
				seen[tr.Task] = true
				posOf[tr.Task] = ri
				t := c.Tasks[idx[tr.Task]]
				wantSkip := t.FileDep && done[tr.Task]
				if tr.Skipped != wantSkip {
					return &rp.Fail{Sig: "json-skipped-flag", Size: size, Msg: fmt.Sprintf("%s: task %s skipped=%v in the report, but the log shows it %s", desc, tr.Task, tr.Skipped, map[bool]string{true: "did not run", false: "ran"}[wantSkip])}
				}
				if tr.Skipped {
					sawSkip = true
					if len(tr.cmds()) != 0 {
						return &rp.Fail{Sig: "json-skipped-with-commands", Size: size, Msg: fmt.Sprintf("%s: skipped task %s lists command results", desc, tr.Task)}
					}
					continue
				}
				if len(t.Cmds) > 0 {
					execFromJSON = append(execFromJSON, tr.Task)
				}
				if len(tr.cmds()) != len(t.Cmds) {
					return &rp.Fail{Sig: "json-command-list", Size: size, Msg: fmt.Sprintf("%s: task %s has %d commands, report lists %d", desc, tr.Task, len(t.Cmds), len(tr.cmds()))}
				}
				for ci, cr := range tr.cmds() {
					rc := t.Cmds[ci]
					wantCmd := c.cmdText(idx[tr.Task], ci, true, vars)
					wantOut := rc.Out.Want
					if rc.UseVar != "" {
						wantOut = vars[rc.UseVar] + wantOut
					}
					switch {
					case cr.Cmd != wantCmd:
						return &rp.Fail{Sig: "json-command-text", Size: size, Msg: fmt.Sprintf("%s: task %s command %d: report says %q, interpolated text is %q", desc, tr.Task, ci, cr.Cmd, wantCmd)}
					case cr.Stdout != wantOut:
						return &rp.Fail{Sig: "json-stdout", Size: size, Msg: fmt.Sprintf("%s: task %s command %d printed %q to stdout, report says %q", desc, tr.Task, ci, wantOut, cr.Stdout)}
					case cr.Stderr != rc.Err.Want:
						return &rp.Fail{Sig: "json-stderr", Size: size, Msg: fmt.Sprintf("%s: task %s command %d printed %q to stderr, report says %q", desc, tr.Task, ci, rc.Err.Want, cr.Stderr)}
					case cr.Status != 0:
						return &rp.Fail{Sig: "json-status", Size: size, Msg: fmt.Sprintf("%s: task %s command %d exited 0, report says %d", desc, tr.Task, ci, cr.Status)}
					}
				}
			}
			for name := range cl {
				if !seen[name] {
					return &rp.Fail{Sig: "json-task-list", Size: size, Msg: fmt.Sprintf("%s: task %s is part of the run but missing from the report: %s", desc, name, r.Stdout)}
				}
			}
			if strings.Join(execFromJSON, ",") != strings.Join(executed, ",") {
				return &rp.Fail{Sig: "json-order", Size: size, Msg: fmt.Sprintf("%s: tasks executed in the order %v, the report lists them as %v", desc, executed, execFromJSON)}
			}
			for name, p := range posOf {
				for _, d := range c.Tasks[idx[name]].Deps {
					if pd, ok := posOf[d]; ok && pd > p {
						return &rp.Fail{Sig: "json-order", Size: size, Msg: fmt.Sprintf("%s: report lists %s before its dependency %s", desc, name, d)}
					}
				}
			}
			markDone(a.Tasks)
		case "show":
			r := b.Run(cwd, env, runTimeout, "--show")
			if r.Exit != 0 {
				return &rp.Fail{Sig: "valid-run-failed", Size: size, Msg: fmt.Sprintf("%s: `spok --show` failed: %s", desc, sandbox.Strip(r.Stderr))}
			}
			if f := showExpect(desc+" (--show)", r.Stdout); f != nil {
				return f
			}
			if len(readLog(logPath)) != 0 {
				return &rp.Fail{Sig: "show-ran-tasks", Size: size, Msg: fmt.Sprintf("%s: --show ran commands: %v", desc, readLog(logPath))}
			}
		case "vars":
			r := b.Run(cwd, env, runTimeout, "--vars")
			if r.Exit != 0 {
				return &rp.Fail{Sig: "valid-run-failed", Size: size, Msg: fmt.Sprintf("%s: `spok --vars` failed: %s", desc, sandbox.Strip(r.Stderr))}
			}
			rows := tableRows(r.Stdout)
			got := map[string]string{}
			count := map[string]int{}
			for _, f := range rows {
				if f[0] == "Variables" || (f[0] == "Name" && len(f) == 2 && f[1] == "Value") {
					continue
				}
				got[f[0]] = strings.Join(f[1:], " ")
				count[f[0]]++
			}
			wantVars := append([][2]string(nil), c.Vars...)
			if c.JoinPair {
				eff := b.EffectiveCwd(cwd)
				wantVars = append(wantVars, [2]string{"OUTDIR", filepath.Join(eff, "my docs", "notes")}, [2]string{"SRCDIR", filepath.Join(eff, "my", "docs notes")})
			}
			if c.EdgePad {
				wantVars = append(wantVars, [2]string{"PADR", strings.TrimSpace(edgePadValue)})
			}
			if len(got) != len(wantVars) {
				return &rp.Fail{Sig: "vars-rows", Size: size, Msg: fmt.Sprintf("%s: %d variables defined, --vars lists %d:\n%s", desc, len(wantVars), len(got), sandbox.Strip(r.Stdout))}
			}
			for _, v := range wantVars {
				if g, ok := got[v[0]]; !ok || g != v[1] || count[v[0]] != 1 {
					return &rp.Fail{Sig: "vars-rows", Size: size, Msg: fmt.Sprintf("%s: variable %s should be listed once with value %q:\n%s", desc, v[0], v[1], sandbox.Strip(r.Stdout))}
				}
			}
		case "noargs":
			r := b.Run(cwd, env, runTimeout)
			if r.Exit != 0 {
				return &rp.Fail{Sig: "valid-run-failed", Size: size, Msg: fmt.Sprintf("%s: `spok` without arguments failed: %s", desc, sandbox.Strip(r.Stderr))}
			}
			log := readLog(logPath)
			if hasDefault {
				f, _ := c.checkRun(desc+" (no arguments, task default exists)", size, []string{"default"}, log, done)
				if f != nil {
					if f.Sig == "task-not-run" {
						f.Sig = "default-task-not-run"
					}
					return f
				}
				markDone([]string{"default"})
			} else {
				if len(log) != 0 {
					return &rp.Fail{Sig: "noargs-ran-tasks", Size: size, Msg: fmt.Sprintf("%s: no task named default, yet commands ran: %v", desc, log)}
				}
				if f := showExpect(desc+" (no arguments, no default task)", r.Stdout); f != nil {
					return f
				}
				r2 := b.Run(cwd, env, runTimeout, "--show")
				if r2.Stdout != r.Stdout {
					return &rp.Fail{Sig: "noargs-differs-from-show", Size: size, Msg: fmt.Sprintf("%s: output without arguments differs from --show:\n%q\n%q", desc, r.Stdout, r2.Stdout)}
				}
			}
		}
		restoreCache()
	}
	if s != nil {
		multi := 0
		for _, t := range c.Tasks {
			if len(t.Cmds) > 0 {
				multi++
			}
		}
		if multi >= 2 || sawSkip {
			s.NonTrivial(src + fmt.Sprint(c.Actions))
		}
		if sawSkip {
			s.Class("report_with_skipped_task")
		}
		if hasDefault {
			s.Class("has_default_task")
		}
		for _, a := range c.Actions {
			s.Class("action_" + a.Kind)
		}
	}
	return nil
}

func keys(m map[string]bool) []string {
	var out []string
	for k := range m {
		out = append(out, k)
	}
	sort.Strings(out)
	return out
}
