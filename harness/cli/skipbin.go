package cli

import (
	"fmt"
	"os"
	"path/filepath"
	"strings"

	"pgregory.net/rapid"

	"verif/ev"
	"verif/rp"
	"verif/sandbox"
)

// SkipCase: incremental runs through the real CLI (C01 / C02 binary leg): a small program is
// run, optionally edited, and run again under some flag set, from the project root or a
// nested directory.
type SkipCase struct {
	// ProjDir names the directory holding the spokfile ("" = proj)
	ProjDir string     `json:"proj_dir,omitempty"`
	NTasks  int        `json:"ntasks"`
	Deps    [][2]int   `json:"deps"`
	FileDep []string   `json:"file_dep"` // per task: "" none, else a file or glob
	Steps   []SkipStep `json:"steps"`
	// SpokLink: the project's spokfile is a symbolic link to ../shared/spokfile; the project (globs,
	// literal files, cache) is still the directory the link is in, not the one its target is in
	SpokLink bool `json:"spok_link,omitempty"`
	// ProjLink: every invocation reaches the project through a symbolic link to its directory
	// (<home>/plink -> <project>), as the working directory or in --spokfile: one project, one cache, one digest
	ProjLink bool `json:"proj_link,omitempty"`
}

// SkipStep is one invocation or edit.
type SkipStep struct {
	Edit   string   `json:"edit,omitempty"`   // file to rewrite with new content
	Revert bool     `json:"revert,omitempty"` // ... or with its very first content again
	Flags  []string `json:"flags,omitempty"`
	Nested bool     `json:"nested,omitempty"`
	Via    string   `json:"via,omitempty"` // "": by name; "default": bare spok (task 0 is called default)
	// Elsewhere: run from a directory outside the project with --spokfile <project>/spokfile
	Elsewhere bool `json:"elsewhere,omitempty"`
	// Style: "rel-dot" = from the project root with --spokfile ./spokfile; "rel-parent" = from the
	// parent directory with --spokfile <project>/spokfile
	Style string `json:"style,omitempty"`
	// ROCache: while this invocation lasts, .spok/cache.json (if there is one) cannot be written by the
	// user running spok. spok may stop with an error; whatever it does, it has no way of recording
	// anything, and what it had recorded for tasks it did not run is as good as before.
	ROCache bool `json:"ro_cache,omitempty"`
}

var skipFiles = []string{"in.txt", "src/a.go", "src/b.go", "data.json"}

// files of the same names in a sibling directory: never part of the project
var skipOutside = []string{"../shared/in.txt", "../shared/src/a.go", "../shared/data.json"}
var skipDeps = []string{"", "in.txt", "src/*.go", "**/*.go", "data.json", "*.txt"}
var skipFlagSets = [][]string{nil, nil, {"--json"}, {"--quiet"}, {"--debug"}, {"--json", "--quiet"}}

func genSkip(t *rapid.T) SkipCase {
	c := genSkipBody(t)
	c.ProjDir = genProjDir(t)
	c.SpokLink = rapid.IntRange(0, 3).Draw(t, "spok_link") == 0
	c.ProjLink = rapid.IntRange(0, 3).Draw(t, "proj_link") == 0
	return c
}

func genSkipBody(t *rapid.T) SkipCase {
	n := rapid.IntRange(1, 3).Draw(t, "ntasks")
	c := SkipCase{NTasks: n}
	for i := 0; i < n; i++ {
		c.FileDep = append(c.FileDep, rapid.SampledFrom(skipDeps).Draw(t, "dep"))
		for j := i + 1; j < n; j++ {
			if rapid.Bool().Draw(t, "taskdep") {
				c.Deps = append(c.Deps, [2]int{i, j})
			}
		}
	}
	useDefault := rapid.IntRange(0, 2).Draw(t, "default") == 0
	useClean := !useDefault && rapid.IntRange(0, 3).Draw(t, "clean") == 0
	ns := rapid.IntRange(2, 6).Draw(t, "nsteps")
	for i := 0; i < ns; i++ {
		if i > 0 && rapid.IntRange(0, 2).Draw(t, "edit") == 0 {
			if rapid.IntRange(0, 4).Draw(t, "outside") == 0 {
				c.Steps = append(c.Steps, SkipStep{Edit: rapid.SampledFrom(skipOutside).Draw(t, "ofile")})
				continue
			}
			c.Steps = append(c.Steps, SkipStep{Edit: rapid.SampledFrom(skipFiles).Draw(t, "file"), Revert: rapid.IntRange(0, 2).Draw(t, "revert") == 0})
			continue
		}
		st := SkipStep{Flags: rapid.SampledFrom(skipFlagSets).Draw(t, "flags"), Nested: rapid.IntRange(0, 2).Draw(t, "nested") == 0}
		switch rapid.IntRange(0, 7).Draw(t, "elsewhere") {
		case 0, 1:
			st.Elsewhere, st.Nested = true, false
		case 2:
			st.Style, st.Nested = "rel-dot", false
		case 3:
			st.Style, st.Nested = "rel-parent", false
		}
		st.ROCache = i > 0 && rapid.IntRange(0, 7).Draw(t, "ro_cache") == 0
		if useDefault {
			st.Via = "default"
		}
		if useClean {
			st.Via = "clean" // task 0 is called clean and started by `spok --clean`: still an ordinary cached task
		}
		c.Steps = append(c.Steps, st)
	}
	return c
}

func (c SkipCase) name(i int) string {
	for _, st := range c.Steps {
		if st.Via == "default" && i == 0 {
			return "default"
		}
		if st.Via == "clean" && i == 0 {
			return "clean"
		}
	}
	return forceNames[i]
}

func (c SkipCase) source() string {
	var b strings.Builder
	for i := 0; i < c.NTasks; i++ {
		var args []string
		if c.FileDep[i] != "" {
			args = append(args, `"`+c.FileDep[i]+`"`)
		}
		for _, d := range c.Deps {
			if d[0] == i {
				args = append(args, c.name(d[1]))
			}
		}
		fmt.Fprintf(&b, "task %s(%s) {\n    echo ran%d >> $LOG\n}\n\n", c.name(i), strings.Join(args, ", "), i)
	}
	return b.String()
}

func skipMatches(dep, file string) bool {
	if strings.HasPrefix(file, "../") {
		return false
	}
	switch dep {
	case "":
		return false
	case "src/*.go", "**/*.go":
		return strings.HasSuffix(file, ".go")
	case "*.txt":
		return file == "in.txt"
	}
	return dep == file
}

func execSkip(id string, s *ev.Shard, b *sandbox.Box, c SkipCase) *rp.Fail {
	if err := b.ResetAs(c.ProjDir); err != nil {
		return &rp.Fail{Sig: "harness", Msg: err.Error()}
	}
	src := c.source()
	files := map[string]string{"spokfile": src, "nested/dir/": ""}
	for _, f := range skipFiles {
		files[f] = "v0"
	}
	if err := writeProject(b, b.Proj, files); err != nil {
		return &rp.Fail{Sig: "harness", Msg: err.Error()}
	}
	outside := map[string]string{"elsewhere/": ""}
	for _, f := range skipOutside {
		outside[strings.TrimPrefix(f, "../")] = "v0"
	}
	if c.SpokLink {
		outside["shared/spokfile"] = src
	}
	if err := writeProject(b, b.Home, outside); err != nil {
		return &rp.Fail{Sig: "harness", Msg: err.Error()}
	}
	if c.SpokLink {
		lp := filepath.Join(b.Proj, "spokfile")
		_ = os.Remove(lp)
		if err := os.Symlink(filepath.Join("..", "shared", "spokfile"), lp); err != nil {
			return &rp.Fail{Sig: "harness", Msg: err.Error()}
		}
		_ = b.Own()
	}
	via := b.Proj // the path under which spok is told about the project
	if c.ProjLink {
		via = filepath.Join(b.Home, "plink")
		_ = os.Remove(via)
		if err := os.Symlink(filepath.Base(b.Proj), via); err != nil {
			return &rp.Fail{Sig: "harness", Msg: err.Error()}
		}
		_ = os.Lchown(via, 65534, 65534)
	}
	logPath := filepath.Join(b.Home, "run.log")
	env := []string{"LOG=" + logPath}
	size := c.NTasks + len(c.Deps) + 2*len(c.Steps)
	// model: per task, the contents of the files it depends on as they were at its last run (nil: never ran)
	content := map[string]string{}
	for _, f := range skipFiles {
		content[f] = "v0"
	}
	lastOn := make([]map[string]string, c.NTasks)
	snapshot := func(i int) map[string]string {
		m := map[string]string{}
		for _, f := range skipFiles {
			if skipMatches(c.FileDep[i], f) {
				m[f] = content[f]
			}
		}
		return m
	}
	same := func(a, b map[string]string) bool {
		if len(a) != len(b) {
			return false
		}
		for k, v := range a {
			if b[k] != v {
				return false
			}
		}
		return true
	}
	closure := map[int]bool{}
	var visit func(int)
	visit = func(i int) {
		if closure[i] {
			return
		}
		closure[i] = true
		for _, d := range c.Deps {
			if d[0] == i {
				visit(d[1])
			}
		}
	}
	visit(0)
	version := 0
	unknown := map[int]bool{}
	sawSkip, sawRerun := false, false
	for si, st := range c.Steps {
		if st.Edit != "" {
			version++
			text := fmt.Sprintf("v%d", version)
			if st.Revert {
				text = "v0"
			}
			if err := sandbox.Write(b.Proj, st.Edit, text); err != nil {
				return &rp.Fail{Sig: "harness", Msg: err.Error()}
			}
			_ = b.Own()
			if !strings.HasPrefix(st.Edit, "../") {
				content[st.Edit] = text
			}
			continue
		}
		_ = os.Remove(logPath)
		cwd := via
		if st.Nested {
			cwd = filepath.Join(via, "nested", "dir")
		}
		args := append([]string(nil), st.Flags...)
		if st.Elsewhere {
			cwd = filepath.Join(b.Home, "elsewhere")
			args = append(args, "--spokfile", filepath.Join(via, "spokfile"))
		}
		switch st.Style {
		case "rel-dot":
			args = append(args, "--spokfile", "./spokfile")
		case "rel-parent":
			cwd = b.Home
			args = append(args, "--spokfile", filepath.Base(via)+"/spokfile")
		}
		switch st.Via {
		case "default":
		case "clean":
			args = append(args, "--clean")
		default:
			args = append(args, c.name(0))
		}
		cacheFile := filepath.Join(b.Proj, ".spok", "cache.json")
		if st.ROCache {
			_ = os.Chmod(cacheFile, 0o444)
		}
		r := b.Run(cwd, env, runTimeout, args...)
		if st.ROCache {
			_ = os.Chmod(cacheFile, 0o644)
		}
		log := readLog(logPath)
		if st.ROCache {
			// nothing is demanded of this invocation itself (C10 and C09 look at such runs); a task
			// that ran in it could not be recorded: until it runs again either outcome is right for it
			for i := range closure {
				if contains(log, fmt.Sprintf("ran%d", i)) {
					unknown[i] = true
				}
			}
			if s != nil {
				s.Class("invocation_with_read_only_cache_file")
			}
			continue
		}
		if os.Getenv("VERIF_DEBUG") != "" {
			fmt.Fprintf(os.Stderr, "DEBUG step %d cwd=%s args=%v\nstdout: %s\nstderr: %s\n", si, cwd, args, r.Stdout, r.Stderr)
		}
		desc := fmt.Sprintf("spokfile%s:\n%sstep %d of %+v: `spok %s` from %s (exit %d, log %v)", map[bool]string{true: " (a symbolic link to ../shared/spokfile)"}[c.SpokLink], src, si, c.Steps, strings.Join(args, " "), map[bool]string{true: "nested/dir", false: map[bool]string{true: "another directory with --spokfile", false: "the project root"}[st.Elsewhere]}[st.Nested], r.Exit, log)
		if r.Exit != 0 {
			return &rp.Fail{Sig: "valid-run-failed", Size: size, Msg: desc + ": " + sandbox.Strip(r.Stderr)}
		}
		for i := range closure {
			ran := contains(log, fmt.Sprintf("ran%d", i))
			mustRun := c.FileDep[i] == "" || lastOn[i] == nil || !same(lastOn[i], snapshot(i))
			if unknown[i] && c.FileDep[i] != "" {
				if ran {
					lastOn[i], unknown[i] = snapshot(i), false
				}
				continue
			}
			switch {
			case mustRun && !ran && id != "C02":
				why := "it has no file dependency"
				if c.FileDep[i] != "" {
					why = fmt.Sprintf("the files it depends on (now %v) differ from those of its last run (%v; nil = it never ran)", snapshot(i), lastOn[i])
				}
				return &rp.Fail{Sig: "wrong-skip", Size: size, Msg: fmt.Sprintf("%s: task %s did not run although %s", desc, c.name(i), why)}
			case !mustRun && ran && id != "C01":
				return &rp.Fail{Sig: "needless-rerun", Size: size, Msg: fmt.Sprintf("%s: task %s ran again although none of its dependency files changed since its last successful run", desc, c.name(i))}
			}
			if ran {
				lastOn[i] = snapshot(i)
				sawRerun = true
			} else {
				sawSkip = true
			}
		}
	}
	if s != nil && sawSkip && sawRerun {
		s.NonTrivial("skipbin:" + src + fmt.Sprint(c.Steps, c.SpokLink, c.ProjDir))
		if c.SpokLink {
			s.Class("spokfile_is_link_into_another_directory")
		}
	}
	return nil
}
