package cli

import (
	"encoding/json"
	"fmt"
	"os"
	"path/filepath"
	"strings"

	"pgregory.net/rapid"

	"verif/ev"
	"verif/rp"
	"verif/sandbox"
)

// DigestCase (C04 binary leg): one project, one task, the digest spok records for it read from
// .spok/cache.json after a run from a fresh cache — under every way of pointing spok at the
// project, and around an edit that is undone again.
type DigestCase struct {
	ProjDir string   `json:"proj_dir,omitempty"`
	Deps    []string `json:"deps"`   // literal files and globs of the task
	Styles  []string `json:"styles"` // "", nested, rel-dot, rel-parent, abs-elsewhere, rel-elsewhere
	Edit    string   `json:"edit"`   // file changed and changed back
	// SpokLink: <project>/spokfile is a symbolic link to ../shared/spokfile, and ../shared holds files
	// of the same names and contents: the project's files are the ones the digest is about
	SpokLink bool `json:"spok_link,omitempty"`
}

var digestDepPool = []string{"in.txt", "src/a.go", "src/*.go", "**/*.go", "*.txt", "data/sub/x.json", "data/**"}
var digestFiles = []string{"in.txt", "other.txt", "src/a.go", "src/b.go", "src/deep/c.go", "data/sub/x.json"}
var digestStyles = []string{"", "nested", "rel-dot", "rel-parent", "abs-elsewhere", "rel-elsewhere"}

func genDigest(t *rapid.T) DigestCase {
	c := DigestCase{ProjDir: genProjDir(t)}
	c.Deps = rapid.SliceOfNDistinct(rapid.SampledFrom(digestDepPool), 1, 3, rapid.ID[string]).Draw(t, "deps")
	c.Styles = rapid.SliceOfNDistinct(rapid.SampledFrom(digestStyles), 2, 4, rapid.ID[string]).Draw(t, "styles")
	c.Edit = rapid.SampledFrom(digestFiles).Draw(t, "edit")
	c.SpokLink = rapid.IntRange(0, 3).Draw(t, "spok_link") == 0
	return c
}

func digestMatches(dep, f string) bool {
	switch dep {
	case "src/*.go":
		return strings.HasPrefix(f, "src/") && strings.Count(f, "/") == 1
	case "**/*.go":
		return strings.HasSuffix(f, ".go")
	case "*.txt":
		return strings.HasSuffix(f, ".txt") && !strings.Contains(f, "/")
	case "data/**":
		return strings.HasPrefix(f, "data/")
	}
	return dep == f
}

func execDigest(s *ev.Shard, b *sandbox.Box, c DigestCase) *rp.Fail {
	if err := b.ResetAs(c.ProjDir); err != nil {
		return &rp.Fail{Sig: "harness", Msg: err.Error()}
	}
	var q []string
	for _, d := range c.Deps {
		q = append(q, `"`+d+`"`)
	}
	src := fmt.Sprintf("task build(%s) {\n    true\n}\n", strings.Join(q, ", "))
	files := map[string]string{"spokfile": src, "nested/dir/": ""}
	for _, f := range digestFiles {
		files[f] = "content of " + f
	}
	if err := writeProject(b, b.Proj, files); err != nil {
		return &rp.Fail{Sig: "harness", Msg: err.Error()}
	}
	if err := writeProject(b, b.Home, map[string]string{"started-here/": ""}); err != nil {
		return &rp.Fail{Sig: "harness", Msg: err.Error()}
	}
	if c.SpokLink {
		shared := filepath.Join(b.Home, "shared")
		if err := writeProject(b, shared, files); err != nil {
			return &rp.Fail{Sig: "harness", Msg: err.Error()}
		}
		_ = os.Remove(filepath.Join(b.Proj, "spokfile"))
		if err := os.Symlink(filepath.Join("..", "shared", "spokfile"), filepath.Join(b.Proj, "spokfile")); err != nil {
			return &rp.Fail{Sig: "harness", Msg: err.Error()}
		}
		_ = b.Own()
	}
	size := len(c.Deps) + len(c.Styles)
	digestUnder := func(style string) (string, *rp.Fail) {
		_ = os.RemoveAll(filepath.Join(b.Proj, ".spok"))
		cwd := b.Proj
		b.Invoke = style
		if style == "nested" {
			b.Invoke, cwd = "", filepath.Join(b.Proj, "nested", "dir")
		}
		r := b.Run(cwd, nil, runTimeout, "build")
		b.Invoke = ""
		if r.Exit != 0 {
			return "", &rp.Fail{Sig: "valid-run-failed", Size: size, Msg: fmt.Sprintf("spokfile:\n%sstarted %q: `spok build` failed: %s", src, style, sandbox.Strip(r.Stderr))}
		}
		data, err := os.ReadFile(filepath.Join(b.Proj, ".spok", "cache.json"))
		if err != nil && c.SpokLink {
			// "next to the spokfile" has two readings when the spokfile is a link; either is accepted here
			data, err = os.ReadFile(filepath.Join(b.Home, "shared", ".spok", "cache.json"))
			_ = os.RemoveAll(filepath.Join(b.Home, "shared", ".spok"))
		}
		if err != nil {
			return "", &rp.Fail{Sig: "no-cache-next-to-spokfile", Size: size, Msg: fmt.Sprintf("spokfile:\n%sstarted %q: no cache at <project>/.spok/cache.json after a successful run: %v", src, style, err)}
		}
		var m map[string]string
		if json.Unmarshal(data, &m) != nil || m["build"] == "" {
			return "", &rp.Fail{Sig: "no-digest-recorded", Size: size, Msg: fmt.Sprintf("spokfile:\n%sstarted %q: cache.json holds no digest for build: %s", src, style, data)}
		}
		return m["build"], nil
	}
	first, f := digestUnder(c.Styles[0])
	if f != nil {
		return f
	}
	for _, st := range c.Styles[1:] {
		d, f := digestUnder(st)
		if f != nil {
			return f
		}
		if d != first {
			return &rp.Fail{Sig: "digest-depends-on-invocation", Size: size, Msg: fmt.Sprintf("spokfile:\n%sthe same files give digest %s when spok is started %q and %s when started %q", src, first, c.Styles[0], d, st)}
		}
	}
	// change one file and change it back
	matched := false
	for _, d := range c.Deps {
		matched = matched || digestMatches(d, c.Edit)
	}
	orig := "content of " + c.Edit
	if err := sandbox.Write(b.Proj, c.Edit, orig+" (edited)"); err != nil {
		return &rp.Fail{Sig: "harness", Msg: err.Error()}
	}
	_ = b.Own()
	edited, f := digestUnder(c.Styles[len(c.Styles)-1])
	if f != nil {
		return f
	}
	if matched && edited == first {
		return &rp.Fail{Sig: "different-sets-same-digest", Size: size, Msg: fmt.Sprintf("spokfile:\n%s%s is a dependency and was edited, the recorded digest stayed %s", src, c.Edit, first)}
	}
	if !matched && edited != first {
		return &rp.Fail{Sig: "same-set-different-digest", Size: size, Msg: fmt.Sprintf("spokfile:\n%s%s is not a dependency; after editing it the recorded digest changed from %s to %s", src, c.Edit, first, edited)}
	}
	if err := sandbox.Write(b.Proj, c.Edit, orig); err != nil {
		return &rp.Fail{Sig: "harness", Msg: err.Error()}
	}
	_ = b.Own()
	back, f := digestUnder(c.Styles[0])
	if f != nil {
		return f
	}
	if back != first {
		return &rp.Fail{Sig: "same-set-different-digest", Size: size, Msg: fmt.Sprintf("spokfile:\n%sthe files are what they were, the digest was %s and is now %s", src, first, back)}
	}
	if s != nil {
		s.Class("space_binary_digest")
		s.NonTrivial("digestbin:" + src + fmt.Sprint(c.Styles, c.Edit, c.ProjDir))
	}
	return nil
}
