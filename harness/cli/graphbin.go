package cli

import (
	"fmt"
	"os"
	"path/filepath"
	"strings"
	"syscall"

	"pgregory.net/rapid"

	"verif/ev"
	"verif/rp"
	"verif/sandbox"
)

// GraphBinCase: a dependency graph run through the CLI, with the first task selected by
// name, implicitly as the default task, or as the user-defined clean task of `--clean`.
type GraphBinCase struct {
	// ProjDir names the directory holding the spokfile ("" = proj)
	ProjDir string `json:"proj_dir,omitempty"`
	// Invoke: how spok is pointed at the project (sandbox.Box.Invoke)
	Invoke string `json:"invoke,omitempty"`
	// Outputs: "files" = standard output and error are regular files (sandbox.Box.FileOutputs)
	Outputs string   `json:"outputs,omitempty"`
	N       int      `json:"n"`
	Edges   [][2]int `json:"edges"` // i depends on j
	Via     string   `json:"via"`   // name default clean
	Undef   int      `json:"undef"` // task that also depends on an undefined name (-1: none)
	Flags   []string `json:"flags"`
	// Req (Via == "name" only): the tasks named on the command line, in order, repeats allowed
	// (empty = just task 0); ReqUndef > 0 puts an undefined name at position ReqUndef-1 of that list
	Req      []int `json:"req,omitempty"`
	ReqUndef int   `json:"req_undef,omitempty"`
	// GlobDep[i]: task i depends on "g<i>/*.txt" (one file to begin with). Makes[i]: task i writes
	// made<i>.txt and every task that depends on i also lists that file as a dependency (it does not
	// exist before i has run for the first time). Prior: what happens before the judged invocation —
	// "run" (the same selection, unforced), "empty:<i>" / "refill:<i>" (the file matched by task i's
	// glob is removed / written anew).
	GlobDep []bool   `json:"glob_dep,omitempty"`
	Makes   []bool   `json:"makes,omitempty"`
	Prior   []string `json:"prior,omitempty"`
	// Saboteur (0 = none, else task index + 1): that task's command removes the .spok directory while
	// the run is under way. spok may then stop with an error about its cache; whatever it does, no task
	// runs twice and no dependent runs before its dependency.
	Saboteur int `json:"saboteur,omitempty"`
	// UndefName: how the undefined requested name is spelled ("" = notatask); an empty or blank
	// argument, or a defined name in other letter case, names no task either.
	UndefName *string `json:"undef_name,omitempty"`
	// Bystander: the spokfile also defines a task nobody asks for whose dependency is a recursive glob,
	// and the project holds entries a walk can trip over (a link to itself, a link to nowhere, a named
	// pipe). None of that concerns the selected tasks.
	Bystander bool `json:"bystander,omitempty"`
}

var gbNames = []string{"alpha", "bravo", "charlie", "delta"}

func (c GraphBinCase) name(i int) string {
	if i == 0 && c.Via != "name" {
		return c.Via
	}
	return gbNames[i]
}

func (c GraphBinCase) source() string {
	var b strings.Builder
	for i := 0; i < c.N; i++ {
		var args []string
		for _, e := range c.Edges {
			if e[0] == i {
				args = append(args, c.name(e[1]))
			}
		}
		if c.Undef == i {
			args = append(args, "nosuchtask")
		}
		if i < len(c.GlobDep) && c.GlobDep[i] {
			args = append(args, fmt.Sprintf(`"g%d/*.txt"`, i))
		}
		for _, e := range c.Edges {
			if e[0] == i && e[1] != i && e[1] < len(c.Makes) && c.Makes[e[1]] {
				args = append(args, fmt.Sprintf(`"made%d.txt"`, e[1]))
			}
		}
		make := ""
		if c.Saboteur == i+1 {
			make = "    rm -rf \"$P/.spok\"\n"
		}
		if i < len(c.Makes) && c.Makes[i] {
			make += fmt.Sprintf("    echo made-by-%d > \"$P/made%d.txt\"\n", i, i)
		}
		fmt.Fprintf(&b, "task %s(%s) {\n    echo begin%d >> $LOG\n%s    echo end%d >> $LOG\n}\n\n", c.name(i), strings.Join(args, ", "), i, make, i)
	}
	if c.Bystander {
		b.WriteString("task zulu(\"**/*.zz\") {\n    echo begin9 >> $LOG\n    echo end9 >> $LOG\n}\n")
	}
	return b.String()
}

func genGraphBin(t *rapid.T) GraphBinCase {
	c := genGraphBinBody(t)
	c.ProjDir = genProjDir(t)
	c.Invoke = genInvoke(t)
	c.Outputs = genOutputs(t)
	return c
}

func genGraphBinBody(t *rapid.T) GraphBinCase {
	n := rapid.IntRange(1, 4).Draw(t, "n")
	c := GraphBinCase{N: n, Undef: -1}
	acyclic := rapid.IntRange(0, 3).Draw(t, "acyclic") != 0
	for i := 0; i < n; i++ {
		for j := 0; j < n; j++ {
			if acyclic && j <= i {
				continue
			}
			if rapid.IntRange(0, 2).Draw(t, "edge") == 0 {
				c.Edges = append(c.Edges, [2]int{i, j})
			}
		}
	}
	c.Via = rapid.SampledFrom([]string{"name", "default", "clean", "clean", "default"}).Draw(t, "via")
	if rapid.IntRange(0, 5).Draw(t, "undef") == 0 {
		c.Undef = rapid.IntRange(0, n-1).Draw(t, "undef_task")
	}
	c.Flags = rapid.SampledFrom([][]string{nil, nil, {"--force"}, {"--json"}, {"--quiet"}}).Draw(t, "flags")
	if rapid.IntRange(0, 2).Draw(t, "files") == 0 {
		for i := 0; i < n; i++ {
			c.GlobDep = append(c.GlobDep, rapid.Bool().Draw(t, "globdep"))
			c.Makes = append(c.Makes, rapid.IntRange(0, 2).Draw(t, "makes") == 0)
		}
		if rapid.IntRange(0, 3).Draw(t, "saboteur") == 0 {
			c.Saboteur = 1 + rapid.IntRange(0, n-1).Draw(t, "saboteur_task")
		}
		np := rapid.IntRange(0, 5).Draw(t, "nprior")
		for k := 0; k < np; k++ {
			switch rapid.IntRange(0, 3).Draw(t, "prior") {
			case 0:
				c.Prior = append(c.Prior, fmt.Sprintf("empty:%d", rapid.IntRange(0, n-1).Draw(t, "which")))
			case 1:
				c.Prior = append(c.Prior, fmt.Sprintf("refill:%d", rapid.IntRange(0, n-1).Draw(t, "which")))
			default:
				c.Prior = append(c.Prior, "run")
			}
		}
	}
	if c.Via == "name" && rapid.Bool().Draw(t, "several_requests") {
		k := rapid.IntRange(1, 4).Draw(t, "nreq")
		for i := 0; i < k; i++ {
			c.Req = append(c.Req, rapid.IntRange(0, n-1).Draw(t, "req"))
		}
		if rapid.IntRange(0, 4).Draw(t, "req_undef") == 0 {
			c.ReqUndef = 1 + rapid.IntRange(0, k).Draw(t, "req_undef_pos")
			if rapid.Bool().Draw(t, "req_undef_odd") {
				name := rapid.SampledFrom([]string{"", " ", "\t", "ALPHA", "alpha ", " alpha", "alph", "alphaa"}).Draw(t, "req_undef_name")
				c.UndefName = &name
			}
		}
	}
	c.Bystander = rapid.IntRange(0, 3).Draw(t, "bystander") == 0
	return c
}

func execGraphBin(s *ev.Shard, b *sandbox.Box, c GraphBinCase) *rp.Fail {
	if err := b.ResetFor(c.ProjDir, c.Invoke); err != nil {
		return &rp.Fail{Sig: "harness", Msg: err.Error()}
	}
	b.FileOutputs = c.Outputs == "files"
	src := c.source()
	if err := writeProject(b, b.Proj, map[string]string{"spokfile": src}); err != nil {
		return &rp.Fail{Sig: "harness", Msg: err.Error()}
	}
	logPath := filepath.Join(b.Home, "run.log")
	for i := range c.GlobDep {
		if c.GlobDep[i] {
			if err := writeProject(b, b.Proj, map[string]string{fmt.Sprintf("g%d/a.txt", i): "0"}); err != nil {
				return &rp.Fail{Sig: "harness", Msg: err.Error()}
			}
		}
	}
	if c.Bystander {
		junk := filepath.Join(b.Proj, "junk")
		if err := os.MkdirAll(filepath.Join(junk, "deep"), 0o755); err != nil {
			return &rp.Fail{Sig: "harness", Msg: err.Error()}
		}
		_ = os.Symlink("loop", filepath.Join(junk, "loop"))
		_ = os.Symlink("nowhere", filepath.Join(junk, "deep", "dangling"))
		_ = syscall.Mkfifo(filepath.Join(junk, "pipe.zz.d"), 0o644)
		_ = b.Own()
	}
	var sel []string
	switch c.Via {
	case "name":
		sel = []string{c.name(0)}
		if len(c.Req) > 0 {
			sel = nil
			for _, i := range c.Req {
				sel = append(sel, c.name(i))
			}
			if c.ReqUndef > 0 {
				k := c.ReqUndef - 1
				undef := "notatask"
				if c.UndefName != nil {
					undef = *c.UndefName
				}
				sel = append(sel[:k:k], append([]string{undef}, sel[k:]...)...)
			}
		}
	case "clean":
		sel = []string{"--clean"}
	}
	args := append(append([]string(nil), c.Flags...), sel...)
	env := []string{"LOG=" + logPath, "P=" + b.Proj}
	for k, op := range c.Prior {
		var i int
		switch {
		case op == "run":
			_ = b.Run(b.Proj, env, runTimeout, sel...)
		case strings.HasPrefix(op, "empty:"):
			fmt.Sscanf(op, "empty:%d", &i)
			_ = os.Remove(filepath.Join(b.Proj, fmt.Sprintf("g%d", i), "a.txt"))
		case strings.HasPrefix(op, "refill:"):
			fmt.Sscanf(op, "refill:%d", &i)
			if i < len(c.GlobDep) && c.GlobDep[i] {
				if err := writeProject(b, b.Proj, map[string]string{fmt.Sprintf("g%d/a.txt", i): fmt.Sprintf("%d", k+1)}); err != nil {
					return &rp.Fail{Sig: "harness", Msg: err.Error()}
				}
			}
		}
	}
	_ = os.Remove(logPath)
	r := b.Run(b.Proj, env, runTimeout, args...)
	if r.TimedOut {
		return &rp.Fail{Sig: "harness", Msg: "spok timed out"}
	}
	log := readLog(logPath)
	size := c.N*3 + len(c.Edges) + len(c.Flags)
	desc := fmt.Sprintf("spokfile:\n%s`spok %s` (exit %d, log %v)", src, strings.Join(args, " "), r.Exit, log)
	if len(c.Prior) > 0 {
		desc = fmt.Sprintf("spokfile:\n%safter %v: `spok %s` (exit %d, log %v)", src, c.Prior, strings.Join(args, " "), r.Exit, log)
	}
	// reference: closure of task 0, undefined names and cycles within it
	closure := map[int]bool{}
	undefined := false
	var visit func(int)
	visit = func(i int) {
		if closure[i] {
			return
		}
		closure[i] = true
		if c.Undef == i {
			undefined = true
		}
		for _, e := range c.Edges {
			if e[0] == i {
				visit(e[1])
			}
		}
	}
	roots := []int{0}
	if c.Via == "name" && len(c.Req) > 0 {
		roots = c.Req
		undefined = c.ReqUndef > 0
	}
	for _, r0 := range roots {
		visit(r0)
	}
	color := make([]int, c.N)
	var dfs func(int) bool
	dfs = func(i int) bool {
		color[i] = 1
		for _, e := range c.Edges {
			if e[0] != i {
				continue
			}
			if color[e[1]] == 1 || (color[e[1]] == 0 && dfs(e[1])) {
				return true
			}
		}
		color[i] = 2
		return false
	}
	cyclic := false
	for _, r0 := range roots {
		if color[r0] == 0 && dfs(r0) {
			cyclic = true
		}
	}
	if undefined || cyclic {
		why := "a depended-on task is undefined"
		if cyclic && !undefined {
			why = "the dependencies of the selected task contain a cycle"
		}
		if r.Exit == 0 {
			return &rp.Fail{Sig: "missing-error", Size: size, Msg: fmt.Sprintf("%s: %s, but spok exited 0", desc, why)}
		}
		if len(log) > 0 {
			return &rp.Fail{Sig: "ran-despite-error", Size: size, Msg: fmt.Sprintf("%s: %s, yet commands ran", desc, why)}
		}
		if s != nil {
			s.Class("expect_error")
			s.NonTrivial("gb:" + src + strings.Join(args, " "))
		}
		return nil
	}
	sabotaged := c.Saboteur > 0 && closure[c.Saboteur-1]
	cacheTrouble := sabotaged && r.Exit != 0 && strings.Contains(strings.ToLower(sandbox.Strip(r.Stderr)), "cache")
	if r.Exit != 0 && !cacheTrouble {
		return &rp.Fail{Sig: "unexpected-error", Size: size, Msg: fmt.Sprintf("%s: acyclic, fully defined graph but spok failed: %s", desc, sandbox.Strip(r.Stderr))}
	}
	// every task of the closure exactly once, as one begin/end pair, dependencies first
	pos := map[int]int{}
	for k := 0; k+1 < len(log); k += 2 {
		var bi, ei int
		if _, err := fmt.Sscanf(log[k], "begin%d", &bi); err != nil {
			return &rp.Fail{Sig: "interleaved", Size: size, Msg: desc + ": log is not a sequence of begin/end pairs"}
		}
		if _, err := fmt.Sscanf(log[k+1], "end%d", &ei); err != nil || ei != bi {
			return &rp.Fail{Sig: "interleaved", Size: size, Msg: desc + ": log is not a sequence of begin/end pairs"}
		}
		if _, dup := pos[bi]; dup {
			return &rp.Fail{Sig: "ran-twice", Size: size, Msg: fmt.Sprintf("%s: task %s ran twice", desc, c.name(bi))}
		}
		pos[bi] = k
	}
	if len(log)%2 != 0 {
		return &rp.Fail{Sig: "interleaved", Size: size, Msg: desc + ": odd number of log lines"}
	}
	// a task with file dependencies may have been skipped, unless the run was forced or it never ran before
	maySkip := func(i int) bool {
		if contains(c.Flags, "--force") || !contains(c.Prior, "run") {
			return false
		}
		if i < len(c.GlobDep) && c.GlobDep[i] {
			return true
		}
		for _, e := range c.Edges {
			if e[0] == i && e[1] < len(c.Makes) && c.Makes[e[1]] {
				return true
			}
		}
		return false
	}
	for i := range closure {
		if _, ok := pos[i]; !ok && (maySkip(i) || cacheTrouble) {
			continue
		}
		if _, ok := pos[i]; !ok {
			return &rp.Fail{Sig: "closure-incomplete", Size: size, Msg: fmt.Sprintf("%s: task %s is the selected task or one of its transitive dependencies but did not run", desc, c.name(i))}
		}
	}
	for i := range pos {
		if !closure[i] {
			return &rp.Fail{Sig: "ran-unrequested-task", Size: size, Msg: fmt.Sprintf("%s: task %s ran but is not reachable from the selected task", desc, c.name(i))}
		}
	}
	for _, e := range c.Edges {
		if pi, ok := pos[e[0]]; ok {
			if pj, ok := pos[e[1]]; ok && pj > pi {
				return &rp.Fail{Sig: "dependency-after-dependent", Size: size, Msg: fmt.Sprintf("%s: %s depends on %s but ran first", desc, c.name(e[0]), c.name(e[1]))}
			}
		}
	}
	if s != nil {
		s.Class("selected_via_" + c.Via)
		if len(closure) >= 2 {
			s.NonTrivial("gb:" + src + strings.Join(args, " "))
		}
		if len(roots) >= 2 {
			s.Class("several_tasks_requested")
		}
		if len(c.Prior) > 0 {
			s.Class("graph_run_after_a_history")
		}
	}
	return nil
}
