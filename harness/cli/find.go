// Package cli is engine E4: properties decided on the built spok binary running in a
// uid-dropped sandbox (C09 C10 C12 C13 C19 C20) and spokfile discovery (C17).
package cli

import (
	"fmt"
	"os"
	"path/filepath"
	"strings"

	"github.com/FollowTheProcess/spok/file"

	"verif/ev"
	"verif/rp"
)

type nopLogger struct{}

func (nopLogger) Sync() error          { return nil }
func (nopLogger) Debug(string, ...any) {}

// Level configurations of a C17 chain.
const (
	lvNothing       = iota // only the child directory
	lvBefore               // + a file sorting before "spokfile"
	lvAfter                // + a file sorting after
	lvBoth                 // + both
	lvSpokfile             // a regular file "spokfile"
	lvSpokBefore           // regular spokfile + an earlier entry
	lvDirSpok              // a directory named "spokfile"
	lvDirSpokDeep          // directory "spokfile" holding a regular "spokfile", plus a later entry
	lvCaseVariant          // a regular file "Spokfile" (different case): an ordinary other entry
	lvCaseBoth             // "Spokfile" next to the real "spokfile"
	lvSpokThenLater        // a regular spokfile, then (created after it) entries sorting after it
	lvCacheDirOnly         // a .spok directory (left behind by an earlier spokfile) and other dot entries, no spokfile
	nLevelCfg
)

// FindCase is a directory chain with a start and a stop directory.
type FindCase struct {
	Cfg   []int    `json:"cfg"`   // per level, top first
	Child []string `json:"child"` // name of the child directory of each level but the last ("d" sorts before spokfile, "t" after)
	Start int      `json:"start"` // level index
	Stop  int      `json:"stop"`  // level index, -1 = an unrelated sibling directory
	// ViaSymlink (binary leg only): HOME and the working directory are spelled through a
	// symbolic link that points at the stop directory
	ViaSymlink bool `json:"via_symlink,omitempty"`
	// StalePWD (binary leg only): the environment variable PWD names another level of the chain
	// than the directory the process is started in (make -C, env -C, exec with Dir but old Env)
	StalePWD int `json:"stale_pwd,omitempty"` // level + 1; 0 = PWD is accurate
	// RelFrom (in-process only): level + 1 of the working directory from which the start directory is
	// given as a relative path (0 = absolute, as spok itself always calls Find). Only termination is
	// demanded there: no caller of Find passes a relative path, what it should find is not laid down.
	RelFrom int `json:"rel_from,omitempty"`
}

func (c FindCase) dirs(base string) []string {
	out := []string{filepath.Join(base, "L")}
	for i := 0; i+1 < len(c.Cfg); i++ {
		out = append(out, filepath.Join(out[i], c.Child[i]))
	}
	return out
}

// FindChildNames: names of directories on the way. What a glob, a regular expression or a format
// string would make of a name is of no concern: a directory name is taken as it is.
var FindChildNames = []string{"d", "t", "project [wip]", "notes{a,b}", "[ab]", "a*b", "q?z", "back\\slash", "100%d", "プロジェクト"}

// lookalike: for a name with pattern characters, a name the pattern reading of it would match.
func lookalike(name string) string {
	switch name {
	case "project [wip]":
		return "project w"
	case "notes{a,b}":
		return "notesa"
	case "[ab]":
		return "a"
	case "a*b":
		return "a-and-b"
	case "q?z":
		return "qaz"
	case "back\\slash":
		return "backslash"
	}
	return ""
}

func (c FindCase) treeKey() string { return fmt.Sprint(c.Cfg, c.Child) }

func (c FindCase) build(base string) error {
	_ = os.RemoveAll(base)
	dirs := c.dirs(base)
	if err := os.MkdirAll(dirs[len(dirs)-1], 0o755); err != nil {
		return err
	}
	if err := os.MkdirAll(filepath.Join(base, "unrelated"), 0o755); err != nil {
		return err
	}
	w := func(dir, name string) error { return os.WriteFile(filepath.Join(dir, name), []byte("# x\n"), 0o644) }
	for i, d := range dirs {
		var err error
		if i+1 < len(dirs) {
			if la := lookalike(c.Child[i]); la != "" {
				// a sibling of the next directory on the way, with a spokfile of its own: never on the way
				if err = os.MkdirAll(filepath.Join(d, la), 0o755); err == nil {
					err = w(filepath.Join(d, la), "spokfile")
				}
				if err != nil {
					return err
				}
			}
		}
		switch c.Cfg[i] {
		case lvBefore:
			err = w(d, "a.txt")
		case lvAfter:
			err = w(d, "zz.txt")
		case lvBoth:
			if err = w(d, "a.txt"); err == nil {
				err = w(d, "zz.txt")
			}
		case lvSpokfile:
			err = w(d, "spokfile")
		case lvSpokBefore:
			if err = w(d, "-first"); err == nil {
				err = w(d, "spokfile")
			}
		case lvDirSpok:
			err = os.Mkdir(filepath.Join(d, "spokfile"), 0o755)
		case lvSpokThenLater:
			// creation order matters on file systems whose raw listing is not sorted
			if err = w(d, "spokfile"); err == nil {
				if err = w(d, "zz.txt"); err == nil {
					if err = w(d, "tests.txt"); err == nil {
						err = os.Mkdir(filepath.Join(d, "vendor"), 0o755)
					}
				}
			}
		case lvCacheDirOnly:
			if err = os.MkdirAll(filepath.Join(d, ".spok"), 0o755); err == nil {
				if err = w(filepath.Join(d, ".spok"), "cache.json"); err == nil {
					if err = w(d, ".env"); err == nil {
						err = os.MkdirAll(filepath.Join(d, ".git"), 0o755)
					}
				}
			}
		case lvCaseVariant:
			err = w(d, "Spokfile")
		case lvCaseBoth:
			if err = w(d, "Spokfile"); err == nil {
				err = w(d, "spokfile")
			}
		case lvDirSpokDeep:
			if err = os.Mkdir(filepath.Join(d, "spokfile"), 0o755); err == nil {
				if err = w(filepath.Join(d, "spokfile"), "spokfile"); err == nil {
					err = w(d, "zz.txt")
				}
			}
		}
		if err != nil {
			return err
		}
	}
	return nil
}

func regularSpokfile(dir string) (string, bool) {
	p := filepath.Join(dir, "spokfile")
	st, err := os.Lstat(p)
	return p, err == nil && st.Mode().IsRegular()
}

// execFind checks one (tree, start, stop) triple; the tree must already be built under base.
func execFind(s *ev.Shard, base string, c FindCase) *rp.Fail {
	dirs := c.dirs(base)
	start := dirs[c.Start]
	stop := filepath.Join(base, "unrelated")
	if c.Stop >= 0 {
		stop = dirs[c.Stop]
	}
	size := len(c.Cfg)*3 + c.Start
	if c.RelFrom > 0 && c.RelFrom-1 <= c.Start {
		old, _ := os.Getwd()
		defer os.Chdir(old)
		if err := os.Chdir(dirs[c.RelFrom-1]); err != nil {
			return &rp.Fail{Sig: "harness", Msg: err.Error()}
		}
		rel, err := filepath.Rel(dirs[c.RelFrom-1], start)
		if err != nil {
			return &rp.Fail{Sig: "harness", Msg: err.Error()}
		}
		_, _ = file.Find(nopLogger{}, rel, stop) // must return; the shard's watchdog sees to that
		if s != nil {
			s.Class("relative_start_directory")
		}
		return nil
	}
	got, err := file.Find(nopLogger{}, start, stop)
	desc := fmt.Sprintf("chain %v children %v, start level %d, stop %s", c.Cfg, c.Child, c.Start, map[bool]string{true: "unrelated directory", false: fmt.Sprintf("level %d", c.Stop)}[c.Stop < 0])
	if err == nil {
		st, lerr := os.Lstat(got)
		if lerr != nil || !st.Mode().IsRegular() || filepath.Base(got) != "spokfile" {
			return &rp.Fail{Sig: "found-non-regular-file", Size: size, Msg: fmt.Sprintf("%s: Find returned %q which is not a regular file named spokfile", desc, got)}
		}
	}
	within := c.Stop >= 0 && c.Stop <= c.Start
	// nearest regular spokfile from start upwards down to level `lowest`
	nearest := func(lowest int) (string, bool) {
		for l := c.Start; l >= lowest; l-- {
			if p, ok := regularSpokfile(dirs[l]); ok {
				return p, true
			}
		}
		return "", false
	}
	if within {
		want, ok := nearest(c.Stop)
		switch {
		case ok && err != nil:
			return &rp.Fail{Sig: "spokfile-missed", Size: size, Msg: fmt.Sprintf("%s: the nearest spokfile is %s but Find reported %v", desc, rel(base, want), err)}
		case ok && got != want:
			return &rp.Fail{Sig: "wrong-spokfile", Size: size, Msg: fmt.Sprintf("%s: the nearest spokfile is %s but Find returned %s", desc, rel(base, want), rel(base, got))}
		case !ok && err == nil:
			return &rp.Fail{Sig: "found-above-stop", Size: size, Msg: fmt.Sprintf("%s: no spokfile between start and stop but Find returned %s", desc, rel(base, got))}
		}
	} else if err == nil {
		// start is not at/below stop: termination is what matters; a result must still be the
		// nearest spokfile on start's own chain
		want, ok := nearest(0)
		if !ok || got != want {
			return &rp.Fail{Sig: "wrong-spokfile", Size: size, Msg: fmt.Sprintf("%s: Find returned %s, which is not the nearest spokfile above the start directory (%v)", desc, rel(base, got), rel(base, want))}
		}
	}
	if s != nil {
		ans, ok := nearest(0)
		nt := !ok
		if ok && filepath.Dir(ans) != start {
			nt = true
		}
		if nt {
			s.NonTrivial(fmt.Sprint(c.Cfg, c.Child, c.Start, c.Stop))
		}
		switch {
		case !within:
			s.Class("start_not_below_stop")
		case err != nil:
			s.Class("within_none_found")
		default:
			s.Class("within_found")
		}
	}
	return nil
}

func rel(base, p string) string {
	if p == "" {
		return "(none)"
	}
	if r, err := filepath.Rel(base, p); err == nil && !strings.HasPrefix(r, "..") {
		return r
	}
	return p
}

// ---- enumeration ---------------------------------------------------------------------

func findMaxDepth() int {
	if ev.Thorough() {
		return 4
	}
	return 3
}

func pow(b, e int) uint64 {
	r := uint64(1)
	for i := 0; i < e; i++ {
		r *= uint64(b)
	}
	return r
}

func findCountDepth(d int) uint64 {
	trees := pow(nLevelCfg, d) * pow(2, d-1)
	return trees * uint64(d) * uint64(d+1)
}

func findTotal() uint64 {
	var t uint64
	for d := 1; d <= findMaxDepth(); d++ {
		t += findCountDepth(d)
	}
	return t
}

func findCase(idx uint64) FindCase {
	for d := 1; d <= findMaxDepth(); d++ {
		n := findCountDepth(d)
		if idx >= n {
			idx -= n
			continue
		}
		per := uint64(d) * uint64(d+1)
		tree, ss := idx/per, idx%per
		c := FindCase{Start: int(ss / uint64(d+1)), Stop: int(ss%uint64(d+1)) - 1}
		for i := 0; i < d; i++ {
			c.Cfg = append(c.Cfg, int(tree%nLevelCfg))
			tree /= nLevelCfg
		}
		for i := 0; i+1 < d; i++ {
			c.Child = append(c.Child, []string{"d", "t"}[tree%2])
			tree /= 2
		}
		return c
	}
	return FindCase{Cfg: []int{0}, Start: 0, Stop: 0}
}
