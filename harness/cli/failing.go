package cli

import (
	"fmt"
	"os"
	"path/filepath"
	"regexp"
	"strings"

	"pgregory.net/rapid"

	"verif/ev"
	"verif/rp"
	"verif/sandbox"
)

// FTask is a task of a C09 program; Cmds holds the exit status of each command.
type FTask struct {
	// GoneDep: also depends on gone.txt, which exists for the priming run and is removed before the
	// failing one: spok gives up at this task with an error of its own
	GoneDep bool     `json:"gone_dep,omitempty"`
	Name    string   `json:"name"`
	FileDep bool     `json:"file_dep"`
	Deps    []string `json:"deps,omitempty"`
	Cmds    []int    `json:"cmds"`
	// How a failing command fails: "" the shell's own `exit N`; "ext": an external program
	// exiting N; "sig": an external program killed by a signal; "false": /bin/false; "noexec": a
	// program the system refuses to start (executable bit set, neither a script nor a binary);
	// "badinterp": a script whose #! line names an interpreter that does not exist
	How []string `json:"how,omitempty"`
}

// FailCase is a C09 case.
type FailCase struct {
	// ProjDir names the directory holding the spokfile ("" = proj)
	ProjDir string `json:"proj_dir,omitempty"`
	// Invoke: how spok is pointed at the project (sandbox.Box.Invoke)
	Invoke string `json:"invoke,omitempty"`
	// Outputs: "files" = standard output and error are regular files (sandbox.Box.FileOutputs)
	Outputs string   `json:"outputs,omitempty"`
	Tasks   []FTask  `json:"tasks"`
	Request []string `json:"request"`
	Flags   []string `json:"flags"`
	// Prime: first run the request once with the failures disarmed, so that every task has a
	// recorded success before the failing run (the failure then hits a populated cache).
	Prime bool `json:"prime,omitempty"`
	// Via selects how the tasks are started: "" by name; "clean": the first task is called clean
	// and started by `spok --clean`; "default": it is called default and started by `spok` without names.
	Via string `json:"via,omitempty"`
	// ROCache (with Prime): during the failing run only, the cache cannot be written: "file" makes
	// .spok/cache.json read-only, "dir" the .spok directory. spok may refuse to run; if it does run
	// a task and that task fails, the task is still not up to date afterwards.
	ROCache string `json:"ro_cache,omitempty"`
	// StaleCache (without Prime): the cache was created by an earlier version of the spokfile that
	// had none of these tasks (a single task "warmup" was run once); the tasks were added afterwards
	StaleCache bool `json:"stale_cache,omitempty"`
}

var failNames = []string{"alpha", "Alpha", "alpha_all", "ALPHA"} // task names are case-sensitive: three tasks share their letters, and one name is the beginning of another
var failStatuses = []int{1, 2, 3, 42, 126, 127, 255}
var failFlagSets = [][]string{nil, {"--quiet"}, {"--json"}, {"--force"}, {"--quiet", "--force"}, {"--json", "--force"}, {"--quiet", "--json"}, {"--json", "--quiet", "--force"}}

func genFail(t *rapid.T) FailCase {
	c := genFailBody(t)
	c.ProjDir = genProjDir(t)
	c.Invoke = genInvoke(t)
	c.Outputs = genOutputs(t)
	if !c.Prime && rapid.IntRange(0, 2).Draw(t, "stale_cache") == 0 {
		c.StaleCache = true
	}
	if c.Prime && rapid.IntRange(0, 4).Draw(t, "ro_cache") == 0 {
		c.ROCache = rapid.SampledFrom([]string{"file", "dir"}).Draw(t, "ro_cache_kind")
	}
	return c
}

func genFailBody(t *rapid.T) FailCase {
	n := rapid.IntRange(1, 4).Draw(t, "ntasks")
	c := FailCase{}
	anyFail := false
	for i := 0; i < n; i++ {
		ft := FTask{Name: failNames[i], FileDep: rapid.IntRange(0, 9).Draw(t, "filedep") < 7}
		ft.GoneDep = rapid.IntRange(0, 9).Draw(t, "gonedep") == 0
		for j := i + 1; j < n; j++ {
			if rapid.IntRange(0, 2).Draw(t, "dep") == 2 {
				ft.Deps = append(ft.Deps, failNames[j])
			}
		}
		nc := rapid.IntRange(1, 4).Draw(t, "ncmds")
		for k := 0; k < nc; k++ {
			st := 0
			if rapid.IntRange(0, 3).Draw(t, "fails") == 3 {
				st = rapid.SampledFrom(failStatuses).Draw(t, "status")
				anyFail = true
			}
			if st == 0 && rapid.IntRange(0, 14).Draw(t, "unrunnable") == 0 {
				st = -1 // a line that is not valid shell, in a task that may not have failed at all
				anyFail = true
			}
			ft.Cmds = append(ft.Cmds, st)
			ft.How = append(ft.How, rapid.SampledFrom([]string{"", "", "ext", "sig", "false", "noexec", "badinterp"}).Draw(t, "how"))
			if st != 0 && k < nc-1 && rapid.IntRange(0, 5).Draw(t, "then_unrunnable") == 0 {
				// the next command line is not valid shell: spok gives up on the task with an error of its own
				ft.Cmds = append(ft.Cmds, -1)
				ft.How = append(ft.How, "")
				k++
			}
		}
		c.Tasks = append(c.Tasks, ft)
	}
	if !anyFail {
		// the property is about failing commands: make sure there is one somewhere
		ti := rapid.IntRange(0, n-1).Draw(t, "failtask")
		ci := rapid.IntRange(0, len(c.Tasks[ti].Cmds)-1).Draw(t, "failcmd")
		c.Tasks[ti].Cmds[ci] = rapid.SampledFrom(failStatuses).Draw(t, "status2")
	}
	perm := rapid.Permutation(failNames[:n]).Draw(t, "order")
	k := rapid.IntRange(1, n).Draw(t, "nreq")
	c.Request = append([]string(nil), perm[:k]...)
	c.Flags = rapid.SampledFrom(failFlagSets).Draw(t, "flags")
	c.Prime = rapid.Bool().Draw(t, "prime")
	for _, ft := range c.Tasks {
		for _, st := range ft.Cmds {
			if st == -1 {
				c.Prime = false // such a line stops a run whether or not the failures are armed
			}
		}
	}
	switch rapid.IntRange(0, 5).Draw(t, "via") {
	case 4:
		c.Via = "clean"
	case 5:
		c.Via = "default"
	}
	if c.Via != "" {
		// the implicitly selected task is the first one; it may depend on the others
		old := c.Tasks[0].Name
		c.Tasks[0].Name = c.Via
		for i := range c.Tasks {
			for j, d := range c.Tasks[i].Deps {
				if d == old {
					c.Tasks[i].Deps[j] = c.Via
				}
			}
		}
		c.Request = []string{c.Via}
	}
	return c
}

func marker(ti, ci int) string { return fmt.Sprintf("x%dy%d", ti, ci) }

func (c FailCase) source() string {
	var b strings.Builder
	for ti, t := range c.Tasks {
		var args []string
		if t.FileDep {
			args = append(args, `"in.txt"`)
		}
		if t.GoneDep {
			args = append(args, `"gone.txt"`)
		}
		args = append(args, t.Deps...)
		fmt.Fprintf(&b, "task %s(%s) {\n", t.Name, strings.Join(args, ", "))
		for ci, st := range t.Cmds {
			if st == -1 {
				b.WriteString("    echo \"never closed\n")
			} else if st == 0 {
				fmt.Fprintf(&b, "    echo %s >> $LOG\n", marker(ti, ci))
			} else {
				how := ""
				if ci < len(t.How) {
					how = t.How[ci]
				}
				fail := fmt.Sprintf("exit %d", st)
				switch how {
				case "ext":
					fail = fmt.Sprintf("sh -c 'exit %d'", st)
				case "sig":
					fail = "sh -c 'kill -9 $$'"
				case "false":
					fail = "false"
				case "noexec":
					fail = "\"$TOOLS/garbage\""
				case "badinterp":
					fail = "\"$TOOLS/badinterp\""
				}
				fmt.Fprintf(&b, "    echo %s >> $LOG; [ -z \"$ARMED\" ] || %s\n", marker(ti, ci), fail)
			}
		}
		b.WriteString("}\n\n")
	}
	return b.String()
}

// failedTasks returns the tasks that executed a command with non-zero status, from the log.
func (c FailCase) failedTasks(log []string) []string {
	var out []string
	for ti, t := range c.Tasks {
		for ci, st := range t.Cmds {
			if st != 0 && contains(log, marker(ti, ci)) {
				out = append(out, t.Name)
				break
			}
		}
	}
	return out
}

func execFail(s *ev.Shard, b *sandbox.Box, c FailCase) *rp.Fail {
	if err := b.ResetFor(c.ProjDir, c.Invoke); err != nil {
		return &rp.Fail{Sig: "harness", Msg: err.Error()}
	}
	b.FileOutputs = c.Outputs == "files"
	src := c.source()
	if err := writeProject(b, b.Proj, map[string]string{"spokfile": src, "in.txt": "input", "gone.txt": "soon gone"}); err != nil {
		return &rp.Fail{Sig: "harness", Msg: err.Error()}
	}
	tools := filepath.Join(b.Home, "tools")
	if err := writeProject(b, b.Home, map[string]string{"tools/garbage": "\x01\x02 neither a script nor a binary\n", "tools/badinterp": "#!/no/such/interpreter\necho hi\n"}); err != nil {
		return &rp.Fail{Sig: "harness", Msg: err.Error()}
	}
	_ = os.Chmod(filepath.Join(tools, "garbage"), 0o755)
	_ = os.Chmod(filepath.Join(tools, "badinterp"), 0o755)
	logPath := filepath.Join(b.Home, "run.log")
	env := []string{"LOG=" + logPath, "TOOLS=" + tools}
	size := len(c.Tasks)*3 + len(c.Request) + len(c.Flags)
	for _, t := range c.Tasks {
		size += len(t.Cmds)
	}
	request := c.Request
	switch c.Via {
	case "clean":
		request = []string{"--clean"}
	case "default":
		request = nil
	}
	args := append(append([]string(nil), c.Flags...), request...)
	if c.StaleCache && !c.Prime {
		warm := "task warmup(\"in.txt\") {\n    echo warm >> $LOG\n}\n"
		if err := writeProject(b, b.Proj, map[string]string{"spokfile": warm}); err != nil {
			return &rp.Fail{Sig: "harness", Msg: err.Error()}
		}
		if r0 := b.Run(b.Proj, env, runTimeout, "warmup"); r0.Exit != 0 {
			return &rp.Fail{Sig: "harness", Msg: "warm-up run failed: " + sandbox.Strip(r0.Stderr)}
		}
		if err := writeProject(b, b.Proj, map[string]string{"spokfile": src}); err != nil {
			return &rp.Fail{Sig: "harness", Msg: err.Error()}
		}
		_ = os.Remove(logPath)
	}
	if c.Prime {
		// every command succeeds while the failures are disarmed
		if r0 := b.Run(b.Proj, env, runTimeout, request...); r0.Exit != 0 {
			return &rp.Fail{Sig: "harness", Msg: "priming run failed: " + sandbox.Strip(r0.Stderr)}
		}
		_ = os.Remove(logPath)
	}
	_ = os.Remove(filepath.Join(b.Proj, "gone.txt"))
	env = append(env, "ARMED=1")
	cacheDir := filepath.Join(b.Proj, ".spok")
	if c.Prime {
		switch c.ROCache {
		case "file":
			_ = os.Chmod(filepath.Join(cacheDir, "cache.json"), 0o444)
		case "dir":
			_ = os.Chmod(cacheDir, 0o555)
		}
	}
	r1 := b.Run(b.Proj, env, runTimeout, args...)
	if c.Prime && c.ROCache != "" {
		_ = os.Chmod(filepath.Join(cacheDir, "cache.json"), 0o644)
		_ = os.Chmod(cacheDir, 0o755)
	}
	if r1.TimedOut {
		return &rp.Fail{Sig: "harness", Msg: "spok timed out"}
	}
	log1 := readLog(logPath)
	F := c.failedTasks(log1)
	desc := fmt.Sprintf("spokfile:\n%s`spok %s`", src, strings.Join(args, " "))
	if c.StaleCache && !c.Prime {
		desc = fmt.Sprintf("spokfile:\n%s(its tasks were added after the cache had been created by an older spokfile) `spok %s`", src, strings.Join(args, " "))
	}
	if c.Prime {
		desc = fmt.Sprintf("spokfile:\n%s(after a first run of %v in which every command succeeded) `spok %s`", src, c.Request, strings.Join(args, " "))
		if c.ROCache != "" {
			desc += fmt.Sprintf(" (while the cache %s was read-only)", map[string]string{"file": "file", "dir": "directory"}[c.ROCache])
		}
	}
	stderr1 := sandbox.Strip(r1.Stderr)
	if len(F) > 0 {
		if r1.Exit == 0 {
			return &rp.Fail{Sig: "failure-exits-zero", Size: size, Msg: fmt.Sprintf("%s: a command of task(s) %v exited non-zero (log %v) but spok exited 0", desc, F, log1)}
		}
		named := false
		for _, f := range F {
			if regexp.MustCompile(`\b` + f + `\b`).MatchString(stderr1) {
				named = true
			}
		}
		if !named {
			return &rp.Fail{Sig: "failing-task-not-identified", Size: size, Msg: fmt.Sprintf("%s: task(s) %v failed but the error output names none of them: %q", desc, F, stderr1)}
		}
	}
	// second, unforced plain run of the same request without touching any file
	_ = os.Remove(logPath)
	r2 := b.Run(b.Proj, env, runTimeout, request...)
	if r2.TimedOut {
		return &rp.Fail{Sig: "harness", Msg: "spok timed out"}
	}
	log2 := readLog(logPath)
	out2 := sandbox.Strip(r2.Stdout)
	for _, f := range F {
		if strings.Contains(out2, fmt.Sprintf("Task %q skipped", f)) {
			return &rp.Fail{Sig: "failed-task-skipped-later", Size: size, Msg: fmt.Sprintf("%s: task %s failed, yet the next run reports it skipped as up to date:\n%s", desc, f, out2)}
		}
	}
	if len(F) > 0 && r2.Exit == 0 {
		return &rp.Fail{Sig: "failed-task-treated-as-up-to-date", Size: size, Msg: fmt.Sprintf("%s: task(s) %v failed, yet the same request succeeds on the next run without any change (log of second run %v):\n%s", desc, F, log2, out2)}
	}
	anyGone := false
	for _, t := range c.Tasks {
		anyGone = anyGone || t.GoneDep
		for ci, st := range t.Cmds {
			anyGone = anyGone || st == -1 // a line that stops the whole run: which tasks the next run reaches is not fixed
			if st != 0 && ci < len(t.How) && (t.How[ci] == "noexec" || t.How[ci] == "badinterp") {
				anyGone = true // a program that cannot be started stops the whole run as well
			}
		}
	}
	if len(F) == 1 && !anyGone {
		// a single failing task must be executed again (its first command is logged again); with a
		// dependency gone the next run may stop at that error instead, which is not "up to date" either
		for ti, t := range c.Tasks {
			if t.Name == F[0] && !contains(log2, marker(ti, 0)) {
				return &rp.Fail{Sig: "failed-task-not-rerun", Size: size, Msg: fmt.Sprintf("%s: task %s failed but did not run again on the next run (log %v)", desc, t.Name, log2)}
			}
		}
	}
	if s != nil {
		nt := len(c.Flags) > 0 || len(c.Tasks) > 1
		for _, t := range c.Tasks {
			for ci, st := range t.Cmds {
				if st != 0 && ci > 0 {
					nt = true
				}
			}
		}
		if nt && len(F) > 0 {
			s.NonTrivial(src + strings.Join(args, " ") + fmt.Sprint(c.Prime, c.Via))
		}
		if len(F) == 0 {
			s.Class("failing_command_not_reached")
		} else {
			s.Class("failure_observed")
		}
		s.Class("flags_" + strings.Join(c.Flags, ""))
		if c.Prime {
			s.Class("failure_on_populated_cache")
		}
		if c.StaleCache && !c.Prime {
			s.Class("tasks_added_after_cache_was_created")
		}
		if c.ROCache != "" && c.Prime {
			s.Class("failing_run_with_unwritable_cache")
		}
		if c.Via != "" {
			s.Class("started_via_" + c.Via)
		}
	}
	return nil
}
