package cli

import (
	"encoding/json"
	"os"
	"path/filepath"
	"strings"
	"time"

	"pgregory.net/rapid"

	"verif/sandbox"
)

const runTimeout = 30 * time.Second

// cmdResult / taskResult mirror spok's --json output. The command list is accepted under
// "results" (code) or "command_results" (documentation).
type cmdResult struct {
	Cmd    string `json:"cmd"`
	Stdout string `json:"stdout"`
	Stderr string `json:"stderr"`
	Status int    `json:"status"`
}

type taskResult struct {
	Task     string      `json:"task"`
	Results  []cmdResult `json:"results"`
	Results2 []cmdResult `json:"command_results"`
	Skipped  bool        `json:"skipped"`
}

func (t taskResult) cmds() []cmdResult {
	if t.Results == nil {
		return t.Results2
	}
	return t.Results
}

// parseJSON decodes stdout as exactly one JSON document followed by at most a line end.
func parseJSON(stdout string) ([]taskResult, bool) {
	trimmed := strings.TrimRight(stdout, "\r\n")
	if strings.ContainsAny(trimmed, "\n") {
		return nil, false
	}
	var out []taskResult
	dec := json.NewDecoder(strings.NewReader(trimmed))
	if err := dec.Decode(&out); err != nil {
		return nil, false
	}
	if dec.More() {
		return nil, false
	}
	return out, true
}

// readLog returns the lines of the side-effect log written by task commands.
func readLog(path string) []string {
	data, err := os.ReadFile(path)
	if err != nil {
		return nil
	}
	var out []string
	for _, l := range strings.Split(string(data), "\n") {
		if l != "" {
			out = append(out, l)
		}
	}
	return out
}

func contains(xs []string, x string) bool {
	for _, y := range xs {
		if y == x {
			return true
		}
	}
	return false
}

// writeProject writes files (relative to dir) and hands the sandbox to the sandbox user.
func writeProject(b *sandbox.Box, dir string, files map[string]string) error {
	for rel, content := range files {
		if strings.HasSuffix(rel, "/") {
			if err := os.MkdirAll(filepath.Join(dir, filepath.FromSlash(rel)), 0o755); err != nil {
				return err
			}
			continue
		}
		if err := sandbox.Write(dir, rel, content); err != nil {
			return err
		}
	}
	return b.Own()
}

// cleanPath is an independent lexical path normaliser (reference for join()).
func cleanPath(cwd string, segs []string) string {
	joined := ""
	for _, s := range segs {
		if s == "" {
			continue
		}
		if joined == "" {
			joined = s
		} else {
			joined += "/" + s
		}
	}
	if !strings.HasPrefix(joined, "/") {
		joined = cwd + "/" + joined
	}
	var stack []string
	for _, part := range strings.Split(joined, "/") {
		switch part {
		case "", ".":
		case "..":
			if len(stack) > 0 {
				stack = stack[:len(stack)-1]
			}
		default:
			stack = append(stack, part)
		}
	}
	return "/" + strings.Join(stack, "/")
}

var osReadFile = os.ReadFile

// projDirPool: names for the directory that holds the spokfile. Characters that mean something to a
// glob, a format string, a regular expression or a shell are ordinary characters of a directory name.
var projDirPool = []string{"proj [v2]", "release{1,2}", "my proj", "a*b", "q?z", "back\\slash", "pr%sj%d", "プロジェクト", "-dash", "(paren)", "x^y+z", "proj", ".hidden-proj", "spokfile"}

func genProjDir(t *rapid.T) string {
	if rapid.IntRange(0, 2).Draw(t, "odd_proj_dir") != 0 {
		return ""
	}
	return rapid.SampledFrom(projDirPool).Draw(t, "proj_dir")
}

// genOutputs: where standard output and error go; mostly pipes, now and then regular files.
func genOutputs(t *rapid.T) string {
	if rapid.IntRange(0, 3).Draw(t, "outputs_to_files") != 0 {
		return ""
	}
	return "files"
}

func genInvoke(t *rapid.T) string {
	if rapid.IntRange(0, 2).Draw(t, "odd_invocation") != 0 {
		return ""
	}
	return rapid.SampledFrom([]string{"rel-dot", "rel-parent", "abs-elsewhere", "rel-elsewhere"}).Draw(t, "invoke")
}
