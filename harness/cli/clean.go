package cli

import (
	"fmt"
	"os"
	"path/filepath"
	"sort"
	"strings"

	"pgregory.net/rapid"

	"verif/ev"
	"verif/model"
	"verif/rp"
	"verif/sandbox"
)

// NamedOut is an output named by a variable.
type NamedOut struct {
	Name  string `json:"name"`
	RHS   string `json:"rhs"`   // source text right of ':='
	Value string `json:"value"` // path the variable evaluates to, relative to the project ("" = the project itself), or absolute-from-project via ".."
}

// CleanCase is a project tree plus a spokfile declaring outputs.
type CleanCase struct {
	// ProjDir names the directory holding the spokfile ("" = proj)
	ProjDir string `json:"proj_dir,omitempty"`
	// Invoke: how spok is pointed at the project (sandbox.Box.Invoke)
	Invoke string `json:"invoke,omitempty"`
	// Outputs: "files" = standard output and error are regular files (sandbox.Box.FileOutputs)
	Outputs   string     `json:"outputs,omitempty"`
	Tree      []string   `json:"tree"` // relative to the project; trailing '/' = directory
	Literal   []string   `json:"literal"`
	Named     []NamedOut `json:"named"`
	Globs     []string   `json:"globs"`
	CleanTask bool       `json:"clean_task"`
	PreCache  bool       `json:"pre_cache"`
	NTasks    int        `json:"ntasks"`
	// Deps: file / glob dependencies spread over the tasks (they overlap the outputs: a file may
	// be read by one task and be another's output); what a task reads has no bearing on --clean
	Deps []string `json:"deps,omitempty"`
	// BadGlob: the first task also depends on "src/[*.c", a pattern the glob syntax rejects. spok may
	// refuse to clean at all; if it reports success, everything designated is gone as usual.
	BadGlob bool `json:"bad_glob,omitempty"`
	// FullStdout: standard output is /dev/full: spok cannot report what it removes; what it removes
	// (everything designated, or, if it gives up, nothing else) is unaffected by that
	FullStdout bool `json:"full_stdout,omitempty"`
	// Extra: names of defined tasks given on the command line along with --clean, after it or (ExtraFirst)
	// in front of it. --clean is still what was asked for.
	Extra      []string `json:"extra,omitempty"`
	ExtraFirst bool     `json:"extra_first,omitempty"`
	// ROOut: the declared output directory dist (holding a.js, a symbolic link to ../README.md and a hard
	// link to src/main.c) is read-only for the user running spok, so that its entries cannot be
	// removed. spok may fail; README.md and src/main.c are nobody's output and keep content and mode.
	ROOut bool `json:"ro_out,omitempty"`
	// CleanFails (with CleanTask): the user's clean task fails after its first command. It was run
	// instead of spok's own cleaning all the same: spok itself removes nothing.
	CleanFails bool `json:"clean_fails,omitempty"`
}

var cleanDepPool = []string{"build/*.o", "**/*.tmp", "src/main.c", "bin/app", "dist/**/*.js", "*.tmp", "b*/*", "README.md", "a/b/c.out"}

var cleanTreePool = []string{
	"bin/app", "bin/x", "bin/keep.txt", "dist/a.js", "dist/sub/b.js", "a/b/c.out", "a/b/keep", "build/x.o", "build/y.o", "build/z.c",
	"src/main.c", "src/t.tmp", "deep/er/u.tmp", "README.md", "notes.tmp", "emptyd/", "bin/app.sha256", "build.log", "dist.tar",
	// names with glob meta characters other than '*': still literal paths for spok
	"gen/report[1].txt", "gen/report1.txt", "gen/q?.txt", "gen/qa.txt",
	// symbolic links ("name->target"): an output that is a link designates the link, not its target
	"latest->bin", "current.txt->README.md",
	// hidden entries: never matched by a glob, and they hide nothing that sorts after them
	".git/config", ".a.tmp", ".cache.d/x.tmp", "z.tmp",
}
var cleanLiteralPool = []string{"bin/app", "dist", "a/b/c.out", "missing/file", "", ".", "./", "..", "../..", "spokfile", "bin", "src/main.c", "emptyd", "bin/app.sha256", "build", "build.log", "dist.tar", "gen/report[1].txt", "gen/q?.txt", "latest", "current.txt"}
var cleanNamedPool = []NamedOut{
	{"OUT_X", `"./bin/x"`, "bin/x"}, {"EMPTY", `""`, ""}, {"DOT", `"."`, "."}, {"JD", `join(".", "dist")`, "dist"},
	{"UP", `join("..")`, ".."}, {"DEEP", `"a/b"`, "a/b"}, {"NOPE", `"nothing/here"`, "nothing/here"}, {"JB", `join("build", "x.o")`, "build/x.o"},
}
var cleanGlobPool = []string{"build/*.o", "**/*.tmp", "none/*.zzz", "dist/**/*.js", "*.tmp", "s*", "*", "b*/*"}

func genClean(t *rapid.T) CleanCase {
	c := genCleanBody(t)
	c.ProjDir = genProjDir(t)
	c.Invoke = genInvoke(t)
	c.Outputs = genOutputs(t)
	return c
}

func genCleanBody(t *rapid.T) CleanCase {
	c := CleanCase{}
	for _, p := range cleanTreePool {
		if rapid.IntRange(0, 3).Draw(t, "tree_"+p) != 0 {
			c.Tree = append(c.Tree, p)
		}
	}
	safeOnly := rapid.IntRange(0, 2).Draw(t, "safe_only") != 2
	unsafeLit := map[string]bool{"": true, ".": true, "./": true, "..": true, "../..": true, "spokfile": true}
	for _, l := range cleanLiteralPool {
		if rapid.IntRange(0, 4).Draw(t, "lit_"+l) == 4 && len(c.Literal) < 5 {
			if safeOnly && unsafeLit[l] {
				continue
			}
			c.Literal = append(c.Literal, l)
		}
	}
	for _, n := range cleanNamedPool {
		if rapid.IntRange(0, 4).Draw(t, "named_"+n.Name) == 4 && len(c.Named) < 5 {
			if safeOnly && (n.Value == "" || n.Value == "." || n.Value == "..") {
				continue
			}
			c.Named = append(c.Named, n)
		}
	}
	for _, g := range cleanGlobPool {
		wide := g == "s*" || g == "*" || g == "b*/*"
		if safeOnly && (g == "s*" || g == "*") {
			continue // they match the spokfile itself
		}
		if (!wide && rapid.IntRange(0, 2).Draw(t, "glob_"+g) == 2) || (wide && rapid.IntRange(0, 5).Draw(t, "wideglob_"+g) == 5) {
			c.Globs = append(c.Globs, g)
		}
	}
	c.CleanTask = rapid.IntRange(0, 3).Draw(t, "clean_task") == 3
	c.CleanFails = c.CleanTask && rapid.IntRange(0, 2).Draw(t, "clean_fails") == 0
	c.PreCache = rapid.Bool().Draw(t, "pre_cache")
	c.NTasks = rapid.IntRange(1, 3).Draw(t, "ntasks")
	c.BadGlob = rapid.IntRange(0, 7).Draw(t, "bad_glob") == 0
	c.FullStdout = rapid.IntRange(0, 7).Draw(t, "full_stdout") == 0
	if rapid.IntRange(0, 2).Draw(t, "with_deps") == 0 {
		c.Deps = rapid.SliceOfN(rapid.SampledFrom(cleanDepPool), 1, 3).Draw(t, "deps")
	}
	if rapid.IntRange(0, 7).Draw(t, "ro_out") == 0 && !c.CleanTask {
		c.ROOut = true
		for _, need := range []string{"dist/a.js", "README.md", "src/main.c"} {
			if !contains(c.Tree, need) {
				c.Tree = append(c.Tree, need)
			}
		}
		if !contains(c.Literal, "dist") {
			c.Literal = append(c.Literal, "dist")
		}
		// README.md and src/main.c are to be bystanders in this case
		keep := c.Literal[:0]
		for _, l := range c.Literal {
			if l != "src/main.c" {
				keep = append(keep, l)
			}
		}
		c.Literal = keep
	}
	if rapid.IntRange(0, 4).Draw(t, "with_task_names") == 0 {
		c.Extra = rapid.SliceOfN(rapid.SampledFrom(cleanTaskNames[:c.NTasks]), 1, 2).Draw(t, "extra")
		c.ExtraFirst = rapid.Bool().Draw(t, "extra_first")
	}
	return c
}

var cleanTaskNames = []string{"build", "bundle", "gen"}

func (c CleanCase) source() string {
	var b strings.Builder
	for _, n := range c.Named {
		fmt.Fprintf(&b, "%s := %s\n", n.Name, n.RHS)
	}
	b.WriteString("\n")
	// distribute the outputs round-robin over the tasks
	outs := make([][]string, c.NTasks)
	k := 0
	add := func(s string) { outs[k%c.NTasks] = append(outs[k%c.NTasks], s); k++ }
	for _, l := range c.Literal {
		add(`"` + l + `"`)
	}
	for _, n := range c.Named {
		add(n.Name)
	}
	for _, g := range c.Globs {
		add(`"` + g + `"`)
	}
	deps := make([][]string, c.NTasks)
	if c.BadGlob {
		deps[0] = append(deps[0], `"src/[*.c"`)
	}
	for j, d := range c.Deps {
		// shifted by one so that a pattern tends to be read by one task and written by another
		deps[(j+1)%c.NTasks] = append(deps[(j+1)%c.NTasks], `"`+d+`"`)
	}
	for i := 0; i < c.NTasks; i++ {
		fmt.Fprintf(&b, "# builds things\ntask %s(%s)", cleanTaskNames[i], strings.Join(deps[i], ", "))
		switch len(outs[i]) {
		case 0:
		case 1:
			b.WriteString(" -> " + outs[i][0])
		default:
			b.WriteString(" -> (" + strings.Join(outs[i], ", ") + ")")
		}
		b.WriteString(" {\n    echo building\n}\n\n")
	}
	if c.CleanTask {
		if c.CleanFails {
			b.WriteString("task clean() {\n    echo cleaning >> $LOG\n    exit 3\n    echo not reached >> $LOG\n}\n")
		} else {
			b.WriteString("task clean() {\n    echo cleaning >> $LOG\n}\n")
		}
	}
	return b.String()
}

func execClean(s *ev.Shard, b *sandbox.Box, c CleanCase) *rp.Fail {
	if err := b.ResetFor(c.ProjDir, c.Invoke); err != nil {
		return &rp.Fail{Sig: "harness", Msg: err.Error()}
	}
	b.FileOutputs = c.Outputs == "files"
	src := c.source()
	files := map[string]string{"spokfile": src}
	var links [][2]string
	for _, p := range c.Tree {
		switch {
		case strings.Contains(p, "->"):
			parts := strings.SplitN(p, "->", 2)
			links = append(links, [2]string{parts[0], parts[1]})
		case strings.HasSuffix(p, "/"):
			files[p] = ""
		default:
			files[p] = "content of " + p
		}
	}
	if c.PreCache {
		files[".spok/cache.json"] = `{"build":""}`
		files[".spok/.gitignore"] = "*\n"
	}
	if err := writeProject(b, b.Proj, files); err != nil {
		return &rp.Fail{Sig: "harness", Msg: err.Error()}
	}
	for _, l := range links {
		lp := filepath.Join(b.Proj, filepath.FromSlash(l[0]))
		if err := os.Symlink(l[1], lp); err != nil {
			return &rp.Fail{Sig: "harness", Msg: err.Error()}
		}
		_ = os.Lchown(lp, 65534, 65534)
	}
	if c.ROOut {
		dist := filepath.Join(b.Proj, "dist")
		_ = os.Symlink(filepath.Join("..", "README.md"), filepath.Join(dist, "readme-link"))
		_ = os.Lchown(filepath.Join(dist, "readme-link"), 65534, 65534)
		_ = os.Link(filepath.Join(b.Proj, "src", "main.c"), filepath.Join(dist, "main-hard.c"))
		_ = os.Chmod(filepath.Join(b.Proj, "README.md"), 0o644)
		_ = os.Chmod(filepath.Join(b.Proj, "src", "main.c"), 0o640)
		_ = os.Chmod(dist, 0o555)
		defer os.Chmod(dist, 0o755)
	}
	// bystanders above the project
	if err := writeProject(b, b.Home, map[string]string{"sibling.txt": "sibling", "other/keep.txt": "keep"}); err != nil {
		return &rp.Fail{Sig: "harness", Msg: err.Error()}
	}
	if err := writeProject(b, filepath.Dir(b.Home), map[string]string{"outer.txt": "outer"}); err != nil {
		return &rp.Fail{Sig: "harness", Msg: err.Error()}
	}
	logRel := "clean.log"
	logPath := filepath.Join(b.SB, logRel)
	size := len(c.Literal) + len(c.Named) + len(c.Globs) + len(c.Tree)/4 + c.NTasks

	projRel, _ := filepath.Rel(b.SB, b.Proj)
	projRel = filepath.ToSlash(projRel)
	entries, err := model.WalkNoFollow(b.Proj)
	if err != nil {
		return &rp.Fail{Sig: "harness", Msg: err.Error()}
	}
	// designated paths, relative to sb
	toSB := func(relToProj string) string {
		abs := cleanPath(b.Proj, []string{relToProj})
		r, err := filepath.Rel(b.SB, abs)
		if err != nil {
			return abs
		}
		return filepath.ToSlash(r)
	}
	type desig struct{ what, path string }
	var D []desig
	for _, l := range c.Literal {
		D = append(D, desig{fmt.Sprintf("literal output %q", l), toSB(l)})
	}
	for _, n := range c.Named {
		if strings.HasPrefix(n.RHS, "join(") {
			// join() gives an absolute path from the directory spok is started in; the output
			// designates whatever path the variable evaluates to
			abs := cleanPath(b.EffectiveCwd(b.Proj), []string{n.Value})
			r, err := filepath.Rel(b.SB, abs)
			if err != nil {
				r = abs
			}
			D = append(D, desig{fmt.Sprintf("output %s := %s", n.Name, n.RHS), filepath.ToSlash(r)})
			continue
		}
		D = append(D, desig{fmt.Sprintf("output %s := %s", n.Name, n.RHS), toSB(n.Value)})
	}
	// files matching an output glob are designated; a directory that matches the pattern may be
	// removed as well (the statement speaks of files, the expansion also yields directories): it
	// is allowed to go but not required to
	var mayOnly []desig
	for _, g := range c.Globs {
		for _, m := range model.GlobFiles(entries, g) {
			D = append(D, desig{fmt.Sprintf("file matching output glob %q", g), toSB(m)})
		}
		for _, e := range entries {
			if e.IsDir && !strings.HasPrefix(e.Rel, ".") && model.Match(g, e.Rel) {
				mayOnly = append(mayOnly, desig{fmt.Sprintf("directory matching output glob %q", g), toSB(e.Rel)})
			}
		}
	}
	protected := map[string]bool{".": true, projRel + "/spokfile": true}
	for p := projRel; p != "." && p != "/" && p != ""; p = filepath.ToSlash(filepath.Dir(p)) {
		protected[p] = true
	}
	isProtected := func(p string) bool { return protected[p] || strings.HasPrefix(p, "..") }
	unsafe := false
	for _, d := range D {
		if isProtected(d.path) {
			unsafe = true
		}
	}
	cacheRel := projRel + "/.spok"

	before, err := sandbox.Snapshot(b.SB)
	if err != nil {
		return &rp.Fail{Sig: "harness", Msg: err.Error()}
	}
	b.FullStdout = c.FullStdout
	cleanArgs := append([]string{"--clean"}, c.Extra...)
	if c.ExtraFirst {
		cleanArgs = append(append([]string(nil), c.Extra...), "--clean")
	}
	res := b.Run(b.Proj, []string{"LOG=" + logPath}, runTimeout, cleanArgs...)
	if res.TimedOut {
		return &rp.Fail{Sig: "harness", Msg: "spok --clean timed out"}
	}
	after, err := sandbox.Snapshot(b.SB)
	if err != nil {
		return &rp.Fail{Sig: "harness", Msg: err.Error()}
	}
	desc := fmt.Sprintf("project tree %v, spokfile:\n%s`spok %s` (exit %d, stderr %q)", c.Tree, src, strings.Join(cleanArgs, " "), res.Exit, strings.TrimSpace(sandbox.Strip(res.Stderr)))
	changes := sandbox.Diff(before, after)

	// 1. the project, its ancestors and the spokfile always survive
	var prot []string
	for p := range protected {
		prot = append(prot, p)
	}
	sort.Strings(prot)
	for _, p := range prot {
		be, had := before[p]
		if af, ok := after[p]; had && (!ok || af != be) {
			return &rp.Fail{Sig: "removed-project-or-spokfile", Size: size, Msg: fmt.Sprintf("%s: %s was removed or replaced", desc, p)}
		}
	}
	if c.CleanTask {
		// the user's task runs instead and spok itself removes nothing
		if c.BadGlob && res.Exit != 0 {
			// no task can run while a pattern in the file cannot be expanded: refusing is fine, touching anything is not
			for _, ch := range changes {
				if !sandbox.Under(ch.Path, cacheRel) {
					return &rp.Fail{Sig: "removed-despite-clean-task", Size: size, Msg: fmt.Sprintf("%s: spok refused to run the clean task, yet %s was %s", desc, ch.Path, ch.What)}
				}
			}
			return nil
		}
		if !contains(readLog(logPath), "cleaning") {
			return &rp.Fail{Sig: "clean-task-not-run", Size: size, Msg: fmt.Sprintf("%s: a task named clean exists but its command did not run", desc)}
		}
		for _, ch := range changes {
			if sandbox.Under(ch.Path, cacheRel) || ch.Path == logRel {
				continue
			}
			return &rp.Fail{Sig: "removed-despite-clean-task", Size: size, Msg: fmt.Sprintf("%s: a task named clean exists, yet %s was %s", desc, ch.Path, ch.What)}
		}
		if s != nil {
			s.Class("with_clean_task")
		}
		return nil
	}
	// 2. frame condition: nothing outside the designated paths and the cache changes
	for _, ch := range changes {
		ok := sandbox.Under(ch.Path, cacheRel) || ch.Path == logRel
		for _, d := range D {
			if sandbox.Under(ch.Path, d.path) {
				ok = true
			}
		}
		for _, d := range mayOnly {
			if sandbox.Under(ch.Path, d.path) {
				ok = true
			}
		}
		if !ok {
			return &rp.Fail{Sig: "changed-undesignated-path", Size: size, Msg: fmt.Sprintf("%s: %s was %s although no declared output designates it", desc, ch.Path, ch.What)}
		}
		if ch.What != "removed" {
			return &rp.Fail{Sig: "clean-created-or-modified", Size: size, Msg: fmt.Sprintf("%s: %s was %s by --clean", desc, ch.Path, ch.What)}
		}
	}
	// 3. completeness
	if res.Exit == 0 {
		for _, d := range D {
			if isProtected(d.path) {
				continue
			}
			if _, still := after[d.path]; still {
				sig := "declared-output-not-removed"
				if strings.Contains(d.what, "glob") {
					sig = "output-glob-not-expanded"
				}
				return &rp.Fail{Sig: sig, Size: size, Msg: fmt.Sprintf("%s: %s (%s) still exists after a successful --clean", desc, d.path, d.what)}
			}
		}
		if _, still := after[cacheRel]; still {
			return &rp.Fail{Sig: "cache-not-removed", Size: size, Msg: fmt.Sprintf("%s: the cache directory still exists after a successful --clean", desc)}
		}
	} else if c.FullStdout && !c.ROOut && len(changes) > 0 {
		// it gave up because it could not print, after having removed some of what it was to remove
		return &rp.Fail{Sig: "clean-stopped-half-way", Size: size, Msg: fmt.Sprintf("%s (standard output was /dev/full): spok failed after removing only part of the declared outputs", desc)}
	} else if !unsafe && !c.BadGlob && !c.FullStdout && !c.ROOut {
		return &rp.Fail{Sig: "clean-failed", Size: size, Msg: fmt.Sprintf("%s: every declared output is inside the project, yet --clean failed", desc)}
	}
	if s != nil {
		existing, bystander := false, false
		for _, d := range D {
			if _, ok := before[d.path]; ok && !isProtected(d.path) {
				existing = true
			}
		}
		for p, e := range before {
			if e.Type != "file" || !sandbox.Under(p, projRel) || p == projRel+"/spokfile" {
				continue
			}
			des := false
			for _, d := range D {
				des = des || sandbox.Under(p, d.path)
			}
			if !des {
				bystander = true
			}
		}
		if existing && bystander {
			s.NonTrivial(src + strings.Join(c.Tree, ","))
		}
		if unsafe {
			s.Class("designates_project_or_above")
		} else {
			s.Class("all_outputs_inside_project")
		}
		if len(c.Globs) > 0 {
			s.Class("with_output_globs")
		}
	}
	return nil
}
