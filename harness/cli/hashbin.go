package cli

import (
	"fmt"
	"os"
	"path/filepath"
	"strings"

	"pgregory.net/rapid"

	"verif/ev"
	"verif/rp"
	"verif/sandbox"
)

// HashBinCase: a task whose literal dependencies are of the given kinds, run through the CLI
// (C18 binary leg: "spok stops with a message instead of dying").
type HashBinCase struct {
	// ProjDir names the directory holding the spokfile ("" = proj)
	ProjDir string `json:"proj_dir,omitempty"`
	// Invoke: how spok is pointed at the project (sandbox.Box.Invoke)
	Invoke string `json:"invoke,omitempty"`
	// Outputs: "files" = standard output and error are regular files (sandbox.Box.FileOutputs)
	Outputs string   `json:"outputs,omitempty"`
	Kinds   []string `json:"kinds"` // regular dir missing dangling symlink unreadable
	Flags   []string `json:"flags"`
	// Prime: every dependency first exists as a regular file and the task is run successfully (twice:
	// the second run is a skip), only then do the dependencies take the kinds above. A recorded
	// digest must not make spok forgiving about a dependency it can no longer read.
	Prime bool `json:"prime,omitempty"`
	// MoveAway (all kinds readable, first one regular): a task `first` with the same dependency list
	// runs before `build` and moves the first dependency away, so it is gone when build's turn comes
	MoveAway bool `json:"move_away,omitempty"`
}

var hashBinKinds = []string{"regular", "regular", "dir", "missing", "dangling", "symlink", "unreadable", "empty", "devnull", "dirlink", "loop", "below-file"}

func genHashBin(t *rapid.T) HashBinCase {
	c := genHashBinBody(t)
	c.ProjDir = genProjDir(t)
	c.Invoke = genInvoke(t)
	c.Outputs = genOutputs(t)
	return c
}

func genHashBinBody(t *rapid.T) HashBinCase {
	n := rapid.IntRange(1, 6).Draw(t, "n")
	c := HashBinCase{}
	for i := 0; i < n; i++ {
		c.Kinds = append(c.Kinds, rapid.SampledFrom(hashBinKinds).Draw(t, "kind"))
	}
	c.Flags = rapid.SampledFrom([][]string{nil, nil, {"--force"}, {"--json"}, {"--quiet"}}).Draw(t, "flags")
	c.Prime = rapid.IntRange(0, 2).Draw(t, "prime") == 0
	c.MoveAway = rapid.IntRange(0, 3).Draw(t, "move_away") == 0
	return c
}

func execHashBin(s *ev.Shard, b *sandbox.Box, c HashBinCase) *rp.Fail {
	if err := b.ResetFor(c.ProjDir, c.Invoke); err != nil {
		return &rp.Fail{Sig: "harness", Msg: err.Error()}
	}
	b.FileOutputs = c.Outputs == "files"
	var deps []string
	files := map[string]string{}
	var post []func() error
	faulty, odd := false, false
	for i, k := range c.Kinds {
		name := fmt.Sprintf("d%d", i)
		deps = append(deps, `"`+name+`"`)
		p := filepath.Join(b.Proj, name)
		switch k {
		case "regular":
			files[name] = "content"
		case "empty":
			files[name] = ""
		case "dir":
			files[name+"/"] = ""
		case "missing":
			faulty = true
		case "dangling":
			faulty = true
			post = append(post, func() error { return os.Symlink("nowhere", p) })
		case "symlink":
			files[name+".target"] = "t"
			post = append(post, func() error { return os.Symlink(name+".target", p) })
		case "devnull":
			// something that can be opened and read but is not a regular file: a digest and an
			// error are both in order, dying is not
			odd = true
			post = append(post, func() error { return os.Symlink("/dev/null", p) })
		case "dirlink":
			files[name+".d/x"] = "x"
			post = append(post, func() error { return os.Symlink(name+".d", p) })
		case "loop":
			// a link to itself: open fails with ELOOP, neither "missing" nor "permission denied"
			faulty = true
			post = append(post, func() error { return os.Symlink(name, p) })
		case "below-file":
			// the dependency d<i> is fine, but a second one names a path below it (ENOTDIR)
			faulty = true
			files[name] = "a file, not a directory"
			deps = append(deps, `"`+name+`/inside"`)
		case "unreadable":
			faulty = true
			files[name] = "secret"
			post = append(post, func() error { return os.Chmod(p, 0) })
		}
	}
	src := fmt.Sprintf("task build(%s) {\n    echo ran >> $LOG\n}\n", strings.Join(deps, ", "))
	moveAway := c.MoveAway && !faulty && !odd && c.Kinds[0] == "regular"
	if moveAway {
		src = fmt.Sprintf("task first(%s) {\n    mv \"$P/d0\" \"$P/d0.gone\"\n}\n\ntask build(first, %s) {\n    echo ran >> $LOG\n}\n", strings.Join(deps, ", "), strings.Join(deps, ", "))
		faulty = true // by the time build is looked at
	}
	files["spokfile"] = src
	logPath := filepath.Join(b.Home, "run.log")
	if c.Prime && !moveAway {
		prime := map[string]string{"spokfile": src}
		for i, k := range c.Kinds {
			if k == "below-file" {
				prime[fmt.Sprintf("d%d/inside", i)] = "as it was at first" // d<i> is a directory to begin with
				continue
			}
			prime[fmt.Sprintf("d%d", i)] = "as it was at first"
		}
		if err := writeProject(b, b.Proj, prime); err != nil {
			return &rp.Fail{Sig: "harness", Msg: err.Error()}
		}
		for k := 0; k < 2; k++ {
			if r0 := b.Run(b.Proj, []string{"LOG=" + logPath, "P=" + filepath.Join(b.Home, "nowhere")}, runTimeout, "build"); r0.Exit != 0 {
				return &rp.Fail{Sig: "harness", Msg: "priming run failed: " + sandbox.Strip(r0.Stderr)}
			}
		}
		for i := range c.Kinds {
			_ = os.RemoveAll(filepath.Join(b.Proj, fmt.Sprintf("d%d", i)))
		}
		_ = os.Remove(logPath)
	}
	if err := writeProject(b, b.Proj, files); err != nil {
		return &rp.Fail{Sig: "harness", Msg: err.Error()}
	}
	for _, f := range post {
		if err := f(); err != nil {
			return &rp.Fail{Sig: "harness", Msg: err.Error()}
		}
	}
	_ = b.Own()
	args := append(append([]string(nil), c.Flags...), "build")
	r := b.Run(b.Proj, []string{"LOG=" + logPath, "P=" + b.Proj}, runTimeout, args...)
	size := len(c.Kinds) + len(c.Flags)
	stderr := sandbox.Strip(r.Stderr)
	desc := fmt.Sprintf("task with dependencies of kinds %v%s: `spok %s` (exit %d)", c.Kinds, map[bool]string{true: " (after two runs in which all of them were regular files)"}[c.Prime && !moveAway]+map[bool]string{true: " (a task with the same dependencies runs first and moves d0 away)"}[moveAway], strings.Join(args, " "), r.Exit)
	if r.TimedOut {
		return &rp.Fail{Sig: "process-stalled", Size: size, Msg: desc + ": did not terminate"}
	}
	if r.Signal != "" || strings.Contains(stderr, "panic:") || strings.Contains(stderr, "goroutine ") || strings.Contains(stderr, "SIGSEGV") {
		return &rp.Fail{Sig: "crash-instead-of-error", Size: size, Msg: fmt.Sprintf("%s: spok died instead of stopping with a message: %s", desc, tail(stderr, 600))}
	}
	forced := contains(c.Flags, "--force")
	if faulty && !forced {
		if r.Exit == 0 {
			return &rp.Fail{Sig: "digest-despite-unopenable-file", Size: size, Msg: desc + ": a dependency cannot be opened or read, yet spok succeeded"}
		}
		if len(readLog(logPath)) > 0 {
			return &rp.Fail{Sig: "ran-despite-unreadable-dependency", Size: size, Msg: desc + ": the task ran although its dependencies could not be hashed"}
		}
	}
	if !faulty && !odd && r.Exit != 0 {
		return &rp.Fail{Sig: "error-on-readable-list", Size: size, Msg: fmt.Sprintf("%s: every dependency is a readable file or a directory, but spok failed: %s", desc, stderr)}
	}
	if s != nil {
		if faulty {
			s.Class("binary_unopenable_dependency")
			s.NonTrivial("hashbin:" + fmt.Sprint(c.Kinds, c.Flags, c.Prime))
			if c.Prime {
				s.Class("binary_unopenable_after_recorded_success")
			}
		} else {
			s.Class("binary_all_readable")
		}
		if odd {
			s.Class("binary_non_regular_readable_dependency")
			s.NonTrivial("hashbin:" + fmt.Sprint(c.Kinds, c.Flags))
		}
	}
	return nil
}
