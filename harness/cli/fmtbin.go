package cli

import (
	"encoding/base64"
	"fmt"
	"os"
	"path/filepath"
	"strconv"
	"strings"
	"unicode/utf8"

	"github.com/FollowTheProcess/spok/ast"
	"github.com/FollowTheProcess/spok/parser"
	"pgregory.net/rapid"

	"verif/ev"
	"verif/gen"
	"verif/rp"
	"verif/sandbox"
)

// FmtCase is a spokfile that parses and loads, to be formatted through the real CLI.
type FmtCase struct {
	// ProjDir names the directory holding the spokfile ("" = proj)
	ProjDir string `json:"proj_dir,omitempty"`
	Src     string `json:"src"`
	// B64: the exact bytes when they are not valid UTF-8 (Src is then only for the reader)
	B64 string `json:"src_b64,omitempty"`
	// Elsewhere: run from another directory with --spokfile <project>/spokfile
	Elsewhere bool `json:"elsewhere,omitempty"`
	// OtherCase: the text is in <project>/Spokfile and --spokfile points at it, next to a different,
	// working <project>/spokfile. spok may refuse the name; whatever it does, it must not touch the sibling
	OtherCase bool `json:"other_case,omitempty"`
	// History: what happens after the first --fmt. "edit": --fmt again, then a variable and a task
	// are appended to the file and it is formatted a third time (the file must then define what it
	// held before that --fmt, and no run may leave other files behind). "restore": a .spok directory
	// exists; after the first --fmt the original text is written back and formatted again (the same
	// bytes must format to the same bytes).
	History string `json:"history,omitempty"`
	// Broken: a statement that does not parse is put in the middle of the text: --fmt must refuse and
	// leave every byte of the file alone. ReadOnly: the spokfile cannot be written by the user running
	// spok (the directory can): refusing is fine, whatever --fmt leaves must be stable.
	// ClosedStdout: the first --fmt runs with a standard output nobody reads (spok is killed at its
	// first message): the file is then either untouched or completely formatted.
	Broken       bool `json:"broken,omitempty"`
	ReadOnly     bool `json:"read_only,omitempty"`
	ClosedStdout bool `json:"closed_stdout,omitempty"`
	// Link: <project>/spokfile is a symbolic link to ../shared-src/spokfile, where the text lives
	// (one spokfile shared by several checkouts). Whatever --fmt does, the text behind the name
	// <project>/spokfile is what is judged.
	Link bool `json:"link,omitempty"`
	// SelfEdit ("after" | "before"): a task that replaces the spokfile by a next version is appended
	// and named on the command line after / before --fmt. Whether spok runs it is its business; the
	// file left behind defines either what it defined before (task not run) or what the next
	// version defines (task run) - never the old definitions written over the new file.
	SelfEdit string `json:"self_edit,omitempty"`
	// FileLimit: the first --fmt runs with a file size limit equal to the size the spokfile has (when its
	// formatted form is longer): writing the formatted text fails half way. spok may fail, and what
	// it leaves of the file when it does is not judged here; if it reports success, the file is formatted.
	FileLimit bool `json:"file_limit,omitempty"`
}

// genFmt draws an abstract program in a random layout whose loading has no side effects
// (string and join values only), weighted towards comments and layouts that shrink or grow
// when formatted.
func genFmt(t *rapid.T) FmtCase {
	c := genFmtBody(t)
	c.ProjDir = genProjDir(t)
	switch rapid.IntRange(0, 7).Draw(t, "invocation") {
	case 0, 1:
		c.Elsewhere = true
	case 2:
		c.OtherCase = true
	case 3:
		c.Link = true
	}
	switch rapid.IntRange(0, 5).Draw(t, "history") {
	case 0:
		c.History = "edit"
	case 1:
		c.History = "restore"
	}
	switch rapid.IntRange(0, 11).Draw(t, "trouble") {
	case 0:
		c.Broken, c.History = true, ""
	case 1:
		c.ReadOnly, c.History = true, ""
	case 2:
		c.ClosedStdout, c.History = true, ""
	case 3:
		c.SelfEdit, c.History = rapid.SampledFrom([]string{"after", "before"}).Draw(t, "self_edit"), ""
	case 4, 5:
		c.FileLimit, c.History = true, ""
	}
	return c
}

func genFmtBody(t *rapid.T) FmtCase {
	var stmts []gen.Stmt
	n := rapid.IntRange(1, 6).Draw(t, "nstmts")
	for i := 0; i < n; i++ {
		switch rapid.IntRange(0, 9).Draw(t, "kind") {
		case 0, 1, 2:
			stmts = append(stmts, gen.Stmt{Kind: "comment", Text: gen.CommentText(t, "comment")})
		case 3, 4:
			val := gen.StringText(t, "val")
			if rapid.IntRange(0, 5).Draw(t, "cr_in_string") == 0 {
				val = "a\rb" + val // a carriage return that is content, not a line end
			}
			stmts = append(stmts, gen.Stmt{Kind: "assign", Name: gen.Ident(t, "var"), ValKind: "string", ValText: val})
		case 5:
			stmts = append(stmts, gen.Stmt{Kind: "assign", Name: gen.Ident(t, "var"), ValKind: "func", ValText: "join", Args: []gen.Arg{{Str: true, Text: "a"}, {Str: true, Text: gen.StringText(t, "seg")}}})
		default:
			st := gen.Stmt{Kind: "task", Name: gen.Ident(t, "task") + string(rune('a'+i))}
			if rapid.Bool().Draw(t, "hasdoc") {
				st.HasDoc, st.Doc = true, gen.CommentText(t, "doc")
			}
			st.Deps = gen.ArgList(t, "deps", 3)
			// dependencies on tasks must not matter for --fmt; keep only file / glob dependencies
			var deps []gen.Arg
			for _, d := range st.Deps {
				if d.Str {
					deps = append(deps, d)
				}
			}
			st.Deps = deps
			if rapid.Bool().Draw(t, "hasouts") {
				for _, o := range gen.ArgList(t, "outs", 3) {
					if o.Str {
						st.Outs = append(st.Outs, o)
					}
				}
			}
			nc := rapid.IntRange(0, 4).Draw(t, "ncmds")
			for j := 0; j < nc; j++ {
				st.Cmds = append(st.Cmds, rapid.SampledFrom(safeCmds).Draw(t, "cmd"))
			}
			stmts = append(stmts, st)
		}
	}
	// sizes are not narrowed: once in a while a very long line (around the 64 KiB mark, where
	// line-oriented readers give up), as a comment, a string or a command
	if rapid.IntRange(0, 19).Draw(t, "huge") == 0 {
		n := rapid.IntRange(65520, 65545).Draw(t, "huge_len")
		long := strings.Repeat("x", n)
		switch rapid.IntRange(0, 2).Draw(t, "huge_kind") {
		case 0:
			stmts = append(stmts, gen.Stmt{Kind: "comment", Text: long})
		case 1:
			stmts = append(stmts, gen.Stmt{Kind: "assign", Name: "HUGE", ValKind: "string", ValText: long})
		default:
			stmts = append(stmts, gen.Stmt{Kind: "task", Name: "huge", Cmds: []string{"echo " + long}})
		}
		if rapid.Bool().Draw(t, "huge_then_more") {
			stmts = append(stmts, gen.Stmt{Kind: "assign", Name: "AFTER", ValKind: "string", ValText: "tail"})
		}
	}
	x := gen.WithStrayBytes(t, gen.Render(gen.RapidChooser{T: t}, gen.Normalize(stmts)))
	if !utf8.ValidString(x) {
		return FmtCase{Src: strconv.QuoteToASCII(x), B64: base64.StdEncoding.EncodeToString([]byte(x))}
	}
	return FmtCase{Src: x}
}

func (c FmtCase) text() string {
	if c.B64 != "" {
		if b, err := base64.StdEncoding.DecodeString(c.B64); err == nil {
			return string(b)
		}
	}
	return c.Src
}

// execFmtBinary runs `spok --fmt` (twice) on the file and judges the result for property id.
func execFmtBinary(id string, s *ev.Shard, b *sandbox.Box, c FmtCase) *rp.Fail {
	src := c.text()
	if c.Broken {
		return fmtBroken(id, s, b, c, src)
	}
	if c.SelfEdit != "" {
		if id != "C07" {
			return nil
		}
		src += "\n# swaps in the next version\ntask zzrewrite() {\n    cp \"$NEXT\" \"$TARGET\"\n    echo ran > \"$MARK\"\n}\n"
	}
	tree1, err := parser.New(src).Parse()
	if err != nil {
		return nil // not this check's business (C06)
	}
	if err := b.ResetAs(c.ProjDir); err != nil {
		return &rp.Fail{Sig: "harness", Msg: err.Error()}
	}
	const siblingSrc = "# the other one\nOTHER := \"kept\"\n\ntask other() {\n    echo other\n}\n"
	files := map[string]string{"spokfile": src, "spokfile.bak": siblingSrc, "sub/spokfile": siblingSrc}
	path := filepath.Join(b.Proj, "spokfile")
	cwd, fmtArgs := b.Proj, []string{"--fmt"}
	if c.OtherCase {
		files["spokfile"], files["Spokfile"] = siblingSrc, src
		path = filepath.Join(b.Proj, "Spokfile")
		fmtArgs = []string{"--spokfile", path, "--fmt"}
	}
	if c.History == "restore" {
		files[".spok/cache.json"] = "{}"
		files[".spok/.gitignore"] = "*\n"
	}
	if err := writeProject(b, b.Proj, files); err != nil {
		return &rp.Fail{Sig: "harness", Msg: err.Error()}
	}
	if c.Elsewhere {
		if err := writeProject(b, b.Home, map[string]string{"elsewhere/spokfile": siblingSrc}); err != nil {
			return &rp.Fail{Sig: "harness", Msg: err.Error()}
		}
		cwd = filepath.Join(b.Home, "elsewhere")
		fmtArgs = []string{"--spokfile", path, "--fmt"}
	}
	if c.Link && !c.OtherCase {
		if err := writeProject(b, b.Home, map[string]string{"shared-src/spokfile": src}); err != nil {
			return &rp.Fail{Sig: "harness", Msg: err.Error()}
		}
		_ = os.Remove(path)
		if err := os.Symlink(filepath.Join("..", "shared-src", "spokfile"), path); err != nil {
			return &rp.Fail{Sig: "harness", Msg: err.Error()}
		}
		_ = b.Own()
	}
	size := len(src)
	if c.SelfEdit != "" {
		return fmtSelfEdit(s, b, c, src, tree1, path, cwd, fmtArgs)
	}
	before, err := sandbox.Snapshot(b.SB)
	if err != nil {
		return &rp.Fail{Sig: "harness", Msg: err.Error()}
	}
	if c.ReadOnly {
		_ = os.Chmod(path, 0o444)
	}
	b.ClosedStdout = c.ClosedStdout
	limited := c.FileLimit && len(tree1.String()) > len(src) && len(src) > 0
	if limited {
		b.FsizeLimit = int64(len(src))
	}
	r1 := b.Run(cwd, nil, runTimeout, fmtArgs...)
	if limited && (r1.Exit != 0 || r1.Signal != "") {
		// it said it could not do it
		if s != nil {
			s.Class("fmt_hit_a_file_size_limit")
		}
		return nil
	}
	if limited && s != nil {
		s.Class("fmt_succeeded_under_a_file_size_limit")
	}
	if r1.TimedOut {
		return &rp.Fail{Sig: "harness", Msg: "spok --fmt timed out"}
	}
	if c.ClosedStdout {
		// killed at its first message (or not, if it printed nothing): the file is the text as it was or
		// its formatted form, nothing in between
		now, _ := os.ReadFile(path)
		if string(now) != src && string(now) != tree1.String() {
			return &rp.Fail{Sig: "fmt-left-file-half-written", Size: size, Msg: fmt.Sprintf("spokfile %q: `spok --fmt` with a closed standard output (exit %d) left the file as %q, which is neither the text as it was nor its formatted form %q", clip(src), r1.Exit, clip(string(now)), clip(tree1.String()))}
		}
		if s != nil {
			s.Class("fmt_with_closed_stdout")
		}
		return nil
	}
	// --fmt rewrites the file it was pointed at and nothing else (the cache directory aside): any
	// other spokfile lying around keeps working as it did
	if after, err := sandbox.Snapshot(b.SB); err == nil && id == "C07" {
		target := fmtTarget(b, c, path)
		projRel, _ := filepath.Rel(b.SB, b.Proj)
		for _, ch := range sandbox.Diff(before, after) {
			if ch.Path == filepath.ToSlash(target) || sandbox.Under(ch.Path, filepath.ToSlash(projRel)+"/.spok") {
				continue
			}
			return &rp.Fail{Sig: "fmt-touched-another-file", Size: size, Msg: fmt.Sprintf("`spok %s` from %s (exit %d): %s was %s, which is not the file --fmt was pointed at (%s)", strings.Join(fmtArgs, " "), cwd, r1.Exit, ch.Path, ch.What, target)}
		}
	}
	if c.OtherCase && r1.Exit != 0 {
		if s != nil {
			s.Class("fmt_refused_file_name")
		}
		return nil
	}
	if r1.Exit != 0 {
		// a spokfile that parses but does not load (duplicate task names, ...) is left alone by --fmt
		after, _ := os.ReadFile(path)
		if string(after) != src {
			return &rp.Fail{Sig: "fmt-failed-but-wrote", Size: size, Msg: fmt.Sprintf("spokfile %q: --fmt failed (%s) but changed the file to %q", src, sandbox.Strip(r1.Stderr), after)}
		}
		if s != nil {
			s.Class("fmt_refused_unloadable")
		}
		return nil
	}
	data1, err := os.ReadFile(path)
	if err != nil {
		return &rp.Fail{Sig: "fmt-removed-spokfile", Size: size, Msg: fmt.Sprintf("spokfile %q: gone after --fmt: %v", src, err)}
	}
	f1 := string(data1)
	tree2, err2 := parser.New(f1).Parse()
	switch id {
	case "C06":
		// the CLI must have parsed the very structure the parser finds in the file's text: what it
		// writes back is the rendering of its tree, so it must equal the rendering of ours
		if want := tree1.String(); f1 != want {
			return &rp.Fail{Sig: "cli-parsed-different-structure", Size: size, Msg: fmt.Sprintf("spokfile %q: the parser's tree for this text renders as %q, but the tree `spok --fmt` built from the file renders as %q", clip(src), clip(want), clip(f1))}
		}
	case "C07":
		if err2 != nil {
			return &rp.Fail{Sig: "fmt-broke-spokfile", Size: size, Msg: fmt.Sprintf("spokfile %q parses; after `spok --fmt` the file is %q which does not: %v", src, f1, err2)}
		}
		if d := gen.Diff(gen.Semantic(gen.Project(tree2)), gen.Semantic(gen.Project(tree1))); d != "" {
			return &rp.Fail{Sig: "fmt-changed-meaning", Size: size, Msg: fmt.Sprintf("spokfile %q; after `spok --fmt` the file is %q and defines different things: %s", src, f1, d)}
		}
	case "C15":
		if err2 != nil {
			return nil
		}
		c1, c2 := gen.Comments(gen.Project(tree1)), gen.Comments(gen.Project(tree2))
		if strings.Join(c1, "\x00") != strings.Join(c2, "\x00") {
			return &rp.Fail{Sig: "fmt-changed-comments", Size: size, Msg: fmt.Sprintf("spokfile %q has comments/docstrings %q; after `spok --fmt` the file %q has %q", src, c1, f1, c2)}
		}
		if f := showAgrees(s, b, cwd, fmtArgs, tree2, f1, size); f != nil {
			return f
		}
	case "C11":
		if err2 != nil {
			return nil
		}
		if c.History == "restore" {
			break // the second run comes after the restore, see fmtHistory
		}
		r2 := b.Run(cwd, nil, runTimeout, fmtArgs...)
		data2, _ := os.ReadFile(path)
		if r2.Exit != 0 || string(data2) != f1 {
			return &rp.Fail{Sig: "fmt-not-idempotent", Size: size, Msg: fmt.Sprintf("spokfile %q: first --fmt gives %q, second --fmt (exit %d) gives %q", src, f1, r2.Exit, data2)}
		}
	}
	if f := fmtHistory(id, s, b, c, src, f1, path, cwd, fmtArgs, size); f != nil {
		return f
	}
	if s != nil {
		switch {
		case len(f1) < len(src):
			s.Class("fmt_shrinks_file")
		case len(f1) > len(src):
			s.Class("fmt_grows_file")
		default:
			s.Class("fmt_same_size")
		}
		if f1 != src {
			s.NonTrivial("bin:" + src)
		}
	}
	return nil
}

// showAgrees: `spok --show` on the formatted file lists every task with the docstring the file
// gives it (compared word by word: the listing aligns its columns with white space).
func showAgrees(s *ev.Shard, b *sandbox.Box, cwd string, fmtArgs []string, tree ast.Tree, text string, size int) *rp.Fail {
	if len(text) > 20000 {
		return nil
	}
	var args []string
	for _, a := range fmtArgs {
		if a != "--fmt" {
			args = append(args, a)
		}
	}
	r := b.Run(cwd, nil, runTimeout, append(args, "--show")...)
	if r.Exit != 0 || r.TimedOut {
		return nil
	}
	listed := map[string][]string{}
	for _, line := range strings.Split(sandbox.Strip(r.Stdout), "\n") {
		if f := strings.Fields(line); len(f) > 0 {
			if _, dup := listed[f[0]]; !dup {
				listed[f[0]] = f[1:]
			}
		}
	}
	n := 0
	for _, st := range gen.Canon(gen.Project(tree)) {
		if st.Kind != "task" || !printable(st.Doc) || !printable(st.Name) || st.Name == "Name" || st.Name == "Tasks" {
			continue
		}
		got, ok := listed[st.Name]
		if !ok {
			continue // not listed at all: a different matter (hidden or renamed tasks are not comments)
		}
		n++
		if want := strings.Fields(st.Doc); strings.Join(got, " ") != strings.Join(want, " ") {
			return &rp.Fail{Sig: "show-docstring-differs", Size: size, Msg: fmt.Sprintf("spokfile %q gives task %s the docstring %q, `spok --show` describes it as %q", clip(text), st.Name, st.Doc, strings.Join(got, " "))}
		}
	}
	if s != nil && n > 0 {
		s.Class("show_descriptions_compared")
	}
	return nil
}

// printable: valid UTF-8 without control characters (those the listing may render in its own way).
func printable(x string) bool {
	if !utf8.ValidString(x) {
		return false
	}
	for _, r := range x {
		if r < 0x20 && r != '\t' || r == 0x7f || r == 0x1b || r == 0x85 || r == 0x2028 || r == 0x2029 {
			return false
		}
	}
	return true
}

// fmtTarget: the file (relative to the sandbox) whose bytes --fmt may change.
func fmtTarget(b *sandbox.Box, c FmtCase, path string) string {
	if c.Link && !c.OtherCase {
		path = filepath.Join(b.Home, "shared-src", "spokfile")
	}
	target, _ := filepath.Rel(b.SB, path)
	return target
}

// fmtSelfEdit: see FmtCase.SelfEdit.
func fmtSelfEdit(s *ev.Shard, b *sandbox.Box, c FmtCase, src string, tree1 ast.Tree, path, cwd string, fmtArgs []string) *rp.Fail {
	next := src + "\nZZNEXT := \"the next version\"\n\n# new in the next version\ntask zzextra() {\n    echo extra\n}\n"
	treeN, err := parser.New(next).Parse()
	if err != nil {
		return nil
	}
	nextPath, mark := filepath.Join(b.Home, "spokfile.next"), filepath.Join(b.Home, "rewrite.marker")
	if err := os.WriteFile(nextPath, []byte(next), 0o644); err != nil {
		return &rp.Fail{Sig: "harness", Msg: err.Error()}
	}
	_ = b.Own()
	args := append(append([]string(nil), fmtArgs...), "zzrewrite")
	if c.SelfEdit == "before" {
		args = append([]string{"zzrewrite"}, fmtArgs...)
	}
	r := b.Run(cwd, []string{"NEXT=" + nextPath, "TARGET=" + path, "MARK=" + mark}, runTimeout, args...)
	if r.TimedOut {
		return &rp.Fail{Sig: "harness", Msg: "spok --fmt timed out"}
	}
	_, merr := os.Stat(mark)
	ran := merr == nil
	want, which := tree1, "the task was not run, so the file should define what it defined"
	if ran {
		want, which = treeN, "the task ran and put the next version in place, so the file should define what that version defines"
	}
	now, _ := os.ReadFile(path)
	treeNow, perr := parser.New(string(now)).Parse()
	desc := fmt.Sprintf("spokfile %q with a task that replaces the spokfile by its next version; `spok %s` (exit %d)", clip(src), strings.Join(args, " "), r.Exit)
	if perr != nil {
		return &rp.Fail{Sig: "fmt-broke-spokfile", Size: len(src), Msg: fmt.Sprintf("%s left %q, which does not parse: %v", desc, clip(string(now)), perr)}
	}
	if d := gen.Diff(gen.Semantic(gen.Project(treeNow)), gen.Semantic(gen.Project(want))); d != "" {
		return &rp.Fail{Sig: "fmt-wrote-stale-definitions", Size: len(src), Msg: fmt.Sprintf("%s: %s, but it is %q: %s", desc, which, clip(string(now)), d)}
	}
	if s != nil {
		s.Class("fmt_with_task_names_on_the_command_line")
		if ran {
			s.Class("fmt_ran_the_named_task")
		}
		s.NonTrivial("selfedit:" + src)
	}
	return nil
}

func clip(x string) string {
	if len(x) > 600 {
		return x[:300] + fmt.Sprintf(" …(%d bytes)… ", len(x)-600) + x[len(x)-300:]
	}
	return x
}

// fmtHistory continues a case after its first successful --fmt (f1 = the file after it).
func fmtHistory(id string, s *ev.Shard, b *sandbox.Box, c FmtCase, src, f1, path, cwd string, fmtArgs []string, size int) *rp.Fail {
	if _, err := parser.New(f1).Parse(); err != nil {
		return nil // C07's subject, reported there
	}
	target := fmtTarget(b, c, path)
	projRel, _ := filepath.Rel(b.SB, b.Proj)
	framed := func(what string) (sandbox.Result, *rp.Fail) {
		before, err := sandbox.Snapshot(b.SB)
		if err != nil {
			return sandbox.Result{}, &rp.Fail{Sig: "harness", Msg: err.Error()}
		}
		r := b.Run(cwd, nil, runTimeout, fmtArgs...)
		after, err := sandbox.Snapshot(b.SB)
		if err != nil {
			return r, &rp.Fail{Sig: "harness", Msg: err.Error()}
		}
		for _, ch := range sandbox.Diff(before, after) {
			if ch.Path == filepath.ToSlash(target) || sandbox.Under(ch.Path, filepath.ToSlash(projRel)+"/.spok") {
				continue
			}
			if id == "C07" {
				return r, &rp.Fail{Sig: "fmt-touched-another-file", Size: size, Msg: fmt.Sprintf("spokfile %q, %s: %s was %s, which is not the file --fmt was pointed at", clip(src), what, ch.Path, ch.What)}
			}
		}
		return r, nil
	}
	switch c.History {
	case "edit":
		if _, f := framed("second --fmt"); f != nil {
			return f
		}
		cur, err := os.ReadFile(path)
		if err != nil {
			return &rp.Fail{Sig: "fmt-removed-spokfile", Size: size, Msg: fmt.Sprintf("spokfile %q: gone after the second --fmt: %v", clip(src), err)}
		}
		edited := string(cur) + "\nLATER := \"added\"\n\n# added later\ntask later() {\n    echo later\n}\n"
		treeE, errE := parser.New(edited).Parse()
		if errE != nil {
			return nil
		}
		if err := os.WriteFile(path, []byte(edited), 0o644); err != nil {
			return &rp.Fail{Sig: "harness", Msg: err.Error()}
		}
		_ = b.Own()
		r3, f := framed("third --fmt (after an edit)")
		if f != nil {
			return f
		}
		data3, _ := os.ReadFile(path)
		tree3, err3 := parser.New(string(data3)).Parse()
		if r3.Exit != 0 {
			return nil // refusing is not changing
		}
		switch id {
		case "C07":
			if err3 != nil {
				return &rp.Fail{Sig: "fmt-broke-spokfile", Size: size, Msg: fmt.Sprintf("spokfile %q parses (it was formatted twice, then a variable and a task were appended); after the next `spok --fmt` the file is %q which does not: %v", clip(edited), clip(string(data3)), err3)}
			}
			if d := gen.Diff(gen.Semantic(gen.Project(tree3)), gen.Semantic(gen.Project(treeE))); d != "" {
				return &rp.Fail{Sig: "fmt-changed-meaning", Size: size, Msg: fmt.Sprintf("spokfile %q (formatted twice, then a variable and a task appended); after the next `spok --fmt` the file is %q and defines different things: %s", clip(edited), clip(string(data3)), d)}
			}
		case "C15":
			if err3 == nil {
				c1, c2 := gen.Comments(gen.Project(treeE)), gen.Comments(gen.Project(tree3))
				if strings.Join(c1, "\x00") != strings.Join(c2, "\x00") {
					return &rp.Fail{Sig: "fmt-changed-comments", Size: size, Msg: fmt.Sprintf("spokfile %q (formatted twice, then edited) has comments/docstrings %q; after the next `spok --fmt` the file %q has %q", clip(edited), c1, clip(string(data3)), c2)}
				}
			}
		case "C06":
			if want := treeE.String(); string(data3) != want {
				return &rp.Fail{Sig: "cli-parsed-different-structure", Size: size, Msg: fmt.Sprintf("spokfile %q (formatted twice, then edited): the parser's tree renders as %q, the tree the third `spok --fmt` built renders as %q", clip(edited), clip(want), clip(string(data3)))}
			}
		}
		if s != nil {
			s.Class("fmt_history_edit_between_formats")
		}
	case "restore":
		if id != "C11" {
			return nil
		}
		if err := os.WriteFile(path, []byte(src), 0o644); err != nil {
			return &rp.Fail{Sig: "harness", Msg: err.Error()}
		}
		_ = b.Own()
		r, f := framed("--fmt of the restored text")
		if f != nil {
			return f
		}
		again, _ := os.ReadFile(path)
		if r.Exit != 0 || string(again) != f1 {
			return &rp.Fail{Sig: "fmt-not-a-function-of-the-text", Size: size, Msg: fmt.Sprintf("spokfile %q: the first --fmt gives %q; with the same text written back the next --fmt (exit %d) leaves %q", clip(src), clip(f1), r.Exit, clip(string(again)))}
		}
		r, _ = framed("--fmt once more")
		again, _ = os.ReadFile(path)
		if r.Exit != 0 || string(again) != f1 {
			return &rp.Fail{Sig: "fmt-not-idempotent", Size: size, Msg: fmt.Sprintf("spokfile %q: formatted, restored, formatted (%q), and one more --fmt (exit %d) gives %q", clip(src), clip(f1), r.Exit, clip(string(again)))}
		}
		if s != nil {
			s.Class("fmt_history_restore_and_format_again")
		}
	}
	return nil
}

// fmtBroken: a text with a statement in the middle that does not parse. Whatever the property, --fmt
// has nothing to format: it must say so (non-zero exit) and leave the file byte for byte as it is.
func fmtBroken(id string, s *ev.Shard, b *sandbox.Box, c FmtCase, src string) *rp.Fail {
	lines := strings.SplitAfter(src, "\n")
	at := len(lines) / 2
	broken := strings.Join(lines[:at], "") + "task oops(\"never closed) {\n" + strings.Join(lines[at:], "")
	if _, err := parser.New(broken).Parse(); err == nil {
		return nil
	}
	if err := b.ResetAs(c.ProjDir); err != nil {
		return &rp.Fail{Sig: "harness", Msg: err.Error()}
	}
	if err := writeProject(b, b.Proj, map[string]string{"spokfile": broken}); err != nil {
		return &rp.Fail{Sig: "harness", Msg: err.Error()}
	}
	path := filepath.Join(b.Proj, "spokfile")
	r := b.Run(b.Proj, nil, runTimeout, "--fmt")
	now, _ := os.ReadFile(path)
	if string(now) != broken {
		return &rp.Fail{Sig: "fmt-rewrote-unparsable-file", Size: len(broken), Msg: fmt.Sprintf("spokfile %q does not parse; `spok --fmt` (exit %d) nevertheless changed it to %q", clip(broken), r.Exit, clip(string(now)))}
	}
	if r.Exit == 0 {
		return &rp.Fail{Sig: "fmt-accepted-unparsable-file", Size: len(broken), Msg: fmt.Sprintf("spokfile %q does not parse, yet `spok --fmt` exited 0", clip(broken))}
	}
	if s != nil {
		s.Class("fmt_refuses_unparsable_file")
	}
	return nil
}
