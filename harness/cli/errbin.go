package cli

import (
	"fmt"
	"os"
	"strings"
	"time"

	"github.com/FollowTheProcess/spok/parser"
	"pgregory.net/rapid"

	"verif/ev"
	"verif/gen"
	"verif/rp"
	"verif/sandbox"
)

// ErrCase is a spokfile text that does not parse, to be reported by the real CLI.
type ErrCase struct {
	// ProjDir names the directory holding the spokfile ("" = proj)
	ProjDir string `json:"proj_dir,omitempty"`
	// Invoke: how spok is pointed at the project (sandbox.Box.Invoke)
	Invoke string `json:"invoke,omitempty"`
	// Outputs: "files" = standard output and error are regular files (sandbox.Box.FileOutputs)
	Outputs string `json:"outputs,omitempty"`
	Src     string `json:"src"`
}

func genErr(t *rapid.T) ErrCase {
	c := genErrBody(t)
	c.ProjDir = genProjDir(t)
	c.Invoke = genInvoke(t)
	c.Outputs = genOutputs(t)
	return c
}

func genErrBody(t *rapid.T) ErrCase {
	x := gen.WithHugeLine(t, gen.Soup(t))
	switch rapid.IntRange(0, 3).Draw(t, "lead") {
	case 1:
		x = "\n\n" + x
	case 2:
		x = " \t\n\r\n\n" + x
	case 3:
		x = x + "\n\n  \n"
	}
	return ErrCase{Src: x}
}

// execErrBinary: whatever the parser reports for the text, the CLI reports for the file —
// in particular the same line number and the same quoted line.
func execErrBinary(s *ev.Shard, b *sandbox.Box, c ErrCase) *rp.Fail {
	// the reference parse runs in this process: bounded, so that a parser that never returns is
	// reported for this case (and does not hold the shard until its deadline)
	if s != nil {
		s.Progress(0, []byte(c.Src))
		s.Tick()
	}
	var perr error
	done := make(chan struct{})
	go func() {
		defer close(done)
		defer func() { _ = recover() }() // a panicking parser is C08's in-process subject
		_, perr = parser.New(c.Src).Parse()
	}()
	select {
	case <-done:
	case <-time.After(90 * time.Second):
		if s != nil {
			fmt.Fprintln(os.Stderr, "WATCHDOG: parsing the case in flight made no progress for 90s")
			os.Exit(3)
		}
		return &rp.Fail{Sig: "process-stalled", Size: len(c.Src), Msg: fmt.Sprintf("spokfile %q: parsing does not terminate", c.Src)}
	}
	if perr == nil {
		if s != nil {
			s.Class("binary_input_parses")
		}
		return nil
	}
	if strings.ContainsRune(c.Src, 0) {
		return nil
	}
	if err := b.ResetFor(c.ProjDir, c.Invoke); err != nil {
		return &rp.Fail{Sig: "harness", Msg: err.Error()}
	}
	b.FileOutputs = c.Outputs == "files"
	if err := writeProject(b, b.Proj, map[string]string{"spokfile": c.Src}); err != nil {
		return &rp.Fail{Sig: "harness", Msg: err.Error()}
	}
	for _, args := range [][]string{{"--show"}, {"--fmt"}} {
		r := b.Run(b.Proj, nil, runTimeout, args...)
		if r.TimedOut {
			return &rp.Fail{Sig: "process-stalled", Size: len(c.Src), Msg: fmt.Sprintf("spokfile %q: `spok %s` did not terminate", c.Src, args[0])}
		}
		stderr := sandbox.Strip(r.Stderr)
		if r.Exit == 0 {
			return &rp.Fail{Sig: "syntax-error-not-reported", Size: len(c.Src), Msg: fmt.Sprintf("spokfile %q does not parse (%v) but `spok %s` exited 0", c.Src, perr, args[0])}
		}
		if strings.Contains(stderr, "panic:") || strings.Contains(stderr, "goroutine ") {
			return &rp.Fail{Sig: "crash-instead-of-error", Size: len(c.Src), Msg: fmt.Sprintf("spokfile %q: `spok %s` crashed: %s", c.Src, args[0], tail(stderr, 500))}
		}
		if !strings.Contains(stderr, perr.Error()) {
			return &rp.Fail{Sig: "cli-error-differs-from-parser", Size: len(c.Src), Msg: fmt.Sprintf("spokfile %q: the parser reports %q but `spok %s` printed %q (a shifted line number or a different quoted line)", c.Src, perr.Error(), args[0], stderr)}
		}
	}
	if s != nil {
		s.Class("binary_syntax_error_reported")
		if strings.Contains(c.Src, "\n") {
			s.NonTrivial("errbin:" + c.Src)
		}
	}
	return nil
}
