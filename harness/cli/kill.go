package cli

import (
	"fmt"
	"os"
	"os/exec"
	"path/filepath"
	"sort"
	"strings"

	"pgregory.net/rapid"

	"verif/ev"
	"verif/model"
	"verif/rp"
	"verif/sandbox"
)

// KTask is a task of a C10 program.
type KTask struct {
	Name  string   `json:"name"`
	Files []string `json:"files,omitempty"`
	Globs []string `json:"globs,omitempty"`
	Deps  []string `json:"deps,omitempty"`
}

// KStep is one action of a C10 history.
type KStep struct {
	Op      string   `json:"op"` // write revert delete run truncate rmcache
	File    string   `json:"file,omitempty"`
	Content string   `json:"content,omitempty"`
	Tasks   []string `json:"tasks,omitempty"`
	Force   bool     `json:"force,omitempty"`
	Fail    []string `json:"fail,omitempty"`
	Kill    string   `json:"kill,omitempty"` // kill -9 spok from inside this task
	Cut     int      `json:"cut,omitempty"`  // truncate: keep Cut per mille of the cache file (0 = empty, 1000 = len-1)
	CutAbs  int      `json:"cut_abs"`        // truncate: absolute byte count when >= 0 (exhaustive mode)
	// Sys/When: kill -9 spok on entering the When-th system call named Sys (strace fault injection):
	// crash points between any two file-system operations, e.g. after a task finished and before its digest is on disk
	Sys  string `json:"sys,omitempty"`
	When int    `json:"when,omitempty"`
	// Elsewhere: this run is started in another directory (which has a spokfile and a cache of its own)
	// with --spokfile <project>/spokfile
	Elsewhere bool `json:"elsewhere,omitempty"`
	// ROCache: for the duration of this run the cache cannot be written ("file": cache.json is
	// read-only, "dir": the .spok directory is); spok may stop with an error about its cache
	ROCache string `json:"ro_cache,omitempty"`
	// Flags: further flags of this run (--json, --quiet, -j, -q): how results are reported has no
	// bearing on what may be skipped or on whether a damaged cache is an error
	Flags []string `json:"flags,omitempty"`
}

// KillCase is a C10 case.
type KillCase struct {
	// ProjDir names the directory holding the spokfile ("" = proj)
	ProjDir string `json:"proj_dir,omitempty"`
	// Invoke: how spok is pointed at the project (sandbox.Box.Invoke)
	Invoke string `json:"invoke,omitempty"`
	// Outputs: "files" = standard output and error are regular files (sandbox.Box.FileOutputs)
	Outputs string            `json:"outputs,omitempty"`
	Tasks   []KTask           `json:"tasks"`
	Init    map[string]string `json:"init"`
	Steps   []KStep           `json:"steps"`
	// Cpus: every run of the case is pinned to these CPUs (taskset); "" = all
	Cpus string `json:"cpus,omitempty"`
}

var (
	kUniverse = []string{"f1.txt", "f2.txt", "sub/f3.txt", "extra.txt", "sub/extra.txt", "g1.c"}
	kLiterals = []string{"f1.txt", "f2.txt"}
	kGlobs    = []string{"*.txt", "sub/*.txt", "**/*.txt", "*.c"}
	kNames    = []string{"A", "B", "C"}
)

func (c KillCase) source() string {
	var b strings.Builder
	for _, t := range c.Tasks {
		var args []string
		for _, f := range t.Files {
			args = append(args, `"`+f+`"`)
		}
		for _, g := range t.Globs {
			args = append(args, `"`+g+`"`)
		}
		args = append(args, t.Deps...)
		fmt.Fprintf(&b, "task %s(%s) {\n", t.Name, strings.Join(args, ", "))
		fmt.Fprintf(&b, "    echo begin:%s >> $LOG\n", t.Name)
		fmt.Fprintf(&b, "    if [ -f $CTL/kill_%s ]; then kill -9 $$; fi\n", t.Name)
		fmt.Fprintf(&b, "    if [ -f $CTL/fail_%s ]; then exit 1; fi\n", t.Name)
		fmt.Fprintf(&b, "    echo end:%s >> $LOG\n", t.Name)
		b.WriteString("}\n\n")
	}
	return b.String()
}

func genKill(t *rapid.T) KillCase {
	c := genKillBody(t)
	c.Cpus = rapid.SampledFrom([]string{"", "", "", "0,1", "0"}).Draw(t, "cpus")
	c.ProjDir = genProjDir(t)
	c.Invoke = genInvoke(t)
	c.Outputs = genOutputs(t)
	return c
}

func genKillBody(t *rapid.T) KillCase {
	n := rapid.IntRange(1, 3).Draw(t, "ntasks")
	c := KillCase{Init: map[string]string{}}
	for i := 0; i < n; i++ {
		kt := KTask{Name: kNames[i]}
		switch rapid.IntRange(0, 4).Draw(t, "shape") {
		case 0:
		case 1:
			kt.Globs = []string{rapid.SampledFrom(kGlobs).Draw(t, "glob")}
		case 2:
			kt.Files = []string{rapid.SampledFrom(kLiterals).Draw(t, "lit")}
			kt.Globs = []string{rapid.SampledFrom(kGlobs).Draw(t, "glob")}
		default:
			kt.Files = []string{rapid.SampledFrom(kLiterals).Draw(t, "lit")}
		}
		for j := i + 1; j < n; j++ {
			if rapid.IntRange(0, 2).Draw(t, "dep") == 2 {
				kt.Deps = append(kt.Deps, kNames[j])
			}
		}
		c.Tasks = append(c.Tasks, kt)
	}
	for _, f := range kUniverse {
		lit := contains(kLiterals, f)
		if lit || rapid.Bool().Draw(t, "init_"+f) {
			c.Init[f] = "0"
		}
	}
	names := kNames[:n]
	ns := rapid.IntRange(3, 10).Draw(t, "nsteps")
	for i := 0; i < ns; i++ {
		var st KStep
		st.CutAbs = -1
		switch k := rapid.IntRange(0, 19).Draw(t, "op"); {
		case k < 5:
			st.Op, st.File, st.Content = "write", rapid.SampledFrom(kUniverse).Draw(t, "file"), rapid.SampledFrom([]string{"0", "1", "2"}).Draw(t, "content")
		case k < 8:
			st.Op, st.File = "revert", rapid.SampledFrom(kUniverse).Draw(t, "file")
		case k < 9:
			st.Op, st.File = "delete", rapid.SampledFrom([]string{"extra.txt", "sub/extra.txt", "g1.c", "sub/f3.txt"}).Draw(t, "file")
		case k < 11:
			st.Op, st.Cut = "truncate", rapid.SampledFrom([]int{0, 1, 500, 1000, 250, 750, 900}).Draw(t, "cut")
		case k < 12:
			st.Op = "rmcache"
		default:
			st.Op = "run"
			perm := rapid.Permutation(names).Draw(t, "order")
			st.Tasks = append([]string(nil), perm[:rapid.IntRange(1, len(perm)).Draw(t, "nreq")]...)
			st.Force = rapid.IntRange(0, 5).Draw(t, "force") == 5
			switch rapid.IntRange(0, 5).Draw(t, "fault") {
			case 4:
				st.Fail = []string{rapid.SampledFrom(names).Draw(t, "failtask")}
			case 5, 3:
				st.Kill = rapid.SampledFrom(names).Draw(t, "killtask")
			}
			switch rapid.IntRange(0, 9).Draw(t, "environment") {
			case 0, 1:
				st.Elsewhere = true
			case 2:
				st.ROCache = rapid.SampledFrom([]string{"file", "dir"}).Draw(t, "ro_cache")
			}
			st.Flags = rapid.SampledFrom([][]string{nil, nil, nil, nil, {"--json"}, {"--quiet"}, {"-j"}, {"--json", "--quiet"}}).Draw(t, "run_flags")
		}
		c.Steps = append(c.Steps, st)
	}
	return c
}

type kState struct {
	last    *string
	tainted bool
}

func kSnapshot(root string, entries []model.Entry, t KTask) string {
	set := map[string]string{}
	for _, f := range t.Files {
		b, err := os.ReadFile(filepath.Join(root, filepath.FromSlash(f)))
		if err != nil {
			set[f] = "\x01missing"
		} else {
			set[f] = string(b)
		}
	}
	for _, g := range t.Globs {
		for rel, content := range model.ReadAll(root, model.GlobFiles(entries, g)) {
			set[rel] = content
		}
	}
	keys := make([]string, 0, len(set))
	for k := range set {
		keys = append(keys, k)
	}
	sort.Strings(keys)
	var b strings.Builder
	for _, k := range keys {
		b.WriteString(k + "\x00" + set[k] + "\x02")
	}
	return b.String()
}

func (c KillCase) closure(req []string) map[string]bool {
	idx := map[string]int{}
	for i, t := range c.Tasks {
		idx[t.Name] = i
	}
	out := map[string]bool{}
	var visit func(string)
	visit = func(n string) {
		if out[n] {
			return
		}
		out[n] = true
		for _, d := range c.Tasks[idx[n]].Deps {
			visit(d)
		}
	}
	for _, r := range req {
		visit(r)
	}
	return out
}

// stracePath is the strace binary used for system-call level crash points ("" when absent).
var stracePath = func() string {
	p, err := exec.LookPath("strace")
	if err != nil {
		return ""
	}
	return p
}()

// lastRunKilled reports whether the most recent run step of execKill died by SIGKILL
// (used by the enumeration to find the end of the system-call sequence).
var lastRunKilled bool

// killedAtStep: whether the last step that ran under strace fault injection was killed.
var killedAtStep bool

func execKill(s *ev.Shard, b *sandbox.Box, c KillCase) *rp.Fail {
	if err := b.ResetFor(c.ProjDir, c.Invoke); err != nil {
		return &rp.Fail{Sig: "harness", Msg: err.Error()}
	}
	b.FileOutputs = c.Outputs == "files"
	b.Cpus = c.Cpus
	src := c.source()
	files := map[string]string{"spokfile": src}
	for f, content := range c.Init {
		files[f] = content
	}
	if err := writeProject(b, b.Proj, files); err != nil {
		return &rp.Fail{Sig: "harness", Msg: err.Error()}
	}
	ctl := filepath.Join(b.Home, "ctl")
	if err := writeProject(b, b.Home, map[string]string{"ctl/": ""}); err != nil {
		return &rp.Fail{Sig: "harness", Msg: err.Error()}
	}
	logPath := filepath.Join(b.Home, "run.log")
	env := []string{"LOG=" + logPath, "CTL=" + ctl}
	cachePath := filepath.Join(b.Proj, ".spok", "cache.json")
	size := len(c.Steps) + len(c.Tasks)

	type fstate struct {
		exists  bool
		content string
	}
	cur, prev := map[string]fstate{}, map[string]fstate{}
	for f, content := range c.Init {
		cur[f] = fstate{true, content}
	}
	apply := func(f string, ns fstate) error {
		if cur[f] == ns {
			return nil
		}
		prev[f], cur[f] = cur[f], ns
		p := filepath.Join(b.Proj, filepath.FromSlash(f))
		if !ns.exists {
			if err := os.Remove(p); err != nil && !os.IsNotExist(err) {
				return err
			}
			return nil
		}
		if err := sandbox.Write(b.Proj, f, ns.content); err != nil {
			return err
		}
		return b.Own()
	}
	state := map[string]*kState{}
	spec := map[string]KTask{}
	for _, t := range c.Tasks {
		state[t.Name] = &kState{}
		spec[t.Name] = t
	}
	faultSeen, faultThenDiffRun := false, false
	fileActAfterFault := false

	for i, st := range c.Steps {
		switch st.Op {
		case "write":
			if err := apply(st.File, fstate{true, st.Content}); err != nil {
				return &rp.Fail{Sig: "harness", Msg: err.Error()}
			}
			fileActAfterFault = fileActAfterFault || faultSeen
		case "delete":
			if err := apply(st.File, fstate{}); err != nil {
				return &rp.Fail{Sig: "harness", Msg: err.Error()}
			}
			fileActAfterFault = fileActAfterFault || faultSeen
		case "revert":
			if ps, ok := prev[st.File]; ok {
				if contains(kLiterals, st.File) && !ps.exists {
					continue
				}
				if err := apply(st.File, ps); err != nil {
					return &rp.Fail{Sig: "harness", Msg: err.Error()}
				}
				fileActAfterFault = fileActAfterFault || faultSeen
			}
		case "rmcache":
			_ = os.RemoveAll(filepath.Join(b.Proj, ".spok"))
			for _, ts := range state {
				ts.last, ts.tainted = nil, false
			}
		case "truncate":
			data, err := os.ReadFile(cachePath)
			if err != nil || len(data) == 0 {
				continue
			}
			k := st.CutAbs
			if k < 0 {
				k = (len(data) - 1) * st.Cut / 1000
			}
			if k >= len(data) {
				continue
			}
			if err := os.WriteFile(cachePath, data[:k], 0o666); err != nil {
				return &rp.Fail{Sig: "harness", Msg: err.Error()}
			}
			_ = os.Lchown(cachePath, 65534, 65534)
			faultSeen = true
			if s != nil {
				s.Class("fault_truncated_cache")
			}
		case "run":
			entries, err := model.WalkNoFollow(b.Proj)
			if err != nil {
				return &rp.Fail{Sig: "harness", Msg: err.Error()}
			}
			now := map[string]string{}
			for _, t := range c.Tasks {
				now[t.Name] = kSnapshot(b.Proj, entries, t)
			}
			// control files
			_ = os.RemoveAll(ctl)
			ctlFiles := map[string]string{"ctl/": ""}
			for _, f := range st.Fail {
				ctlFiles["ctl/fail_"+f] = ""
			}
			if st.Kill != "" {
				ctlFiles["ctl/kill_"+st.Kill] = ""
			}
			if err := writeProject(b, b.Home, ctlFiles); err != nil {
				return &rp.Fail{Sig: "harness", Msg: err.Error()}
			}
			_ = os.Remove(logPath)
			var args []string
			if st.Force {
				args = append(args, "--force")
			}
			args = append(args, st.Flags...)
			args = append(args, st.Tasks...)
			cwd := b.Proj
			if st.Elsewhere {
				cwd = filepath.Join(b.Home, "elsewhere")
				other := map[string]string{"elsewhere/spokfile": "task A() {\n    echo other\n}\n", "elsewhere/.spok/cache.json": `{"A":"0000","B":"1111","C":"2222"}`, "elsewhere/.spok/.gitignore": "*\n"}
				if err := writeProject(b, b.Home, other); err != nil {
					return &rp.Fail{Sig: "harness", Msg: err.Error()}
				}
				args = append([]string{"--spokfile", filepath.Join(b.Proj, "spokfile")}, args...)
			}
			switch st.ROCache {
			case "file":
				_ = os.Chmod(cachePath, 0o444)
			case "dir":
				_ = os.Chmod(filepath.Dir(cachePath), 0o555)
			}
			var res sandbox.Result
			if st.Sys != "" && stracePath != "" {
				wrapper := []string{stracePath, "-f", "-qq", "-o", "/dev/null", "-e", "trace=" + st.Sys, "-e", fmt.Sprintf("inject=%s:signal=SIGKILL:when=%d", st.Sys, st.When)}
				res = b.RunWrapped(wrapper, cwd, env, runTimeout, args...)
			} else {
				res = b.Run(cwd, env, runTimeout, args...)
			}
			if st.ROCache != "" {
				_ = os.Chmod(filepath.Dir(cachePath), 0o755)
				_ = os.Chmod(cachePath, 0o644)
				if s != nil {
					s.Class("run_with_unwritable_cache")
				}
			}
			if st.Elsewhere && s != nil {
				s.Class("run_from_elsewhere_with_spokfile_flag")
			}
			if res.TimedOut {
				return &rp.Fail{Sig: "harness", Msg: "spok timed out"}
			}
			lastRunKilled = res.Signal == "killed"
			if st.Sys != "" {
				killedAtStep = lastRunKilled
			}
			log := readLog(logPath)
			stderr := sandbox.Strip(res.Stderr)
			where := fmt.Sprintf("spokfile:\n%sstep %d of %+v: `spok %s` (exit %d, log %v)", src, i, c.Steps, strings.Join(args, " "), res.Exit, log)
			killed := res.Signal == "killed"
			if strings.Contains(stderr, "panic:") || strings.Contains(stderr, "goroutine ") {
				return &rp.Fail{Sig: "crash-instead-of-error", Size: size, Msg: fmt.Sprintf("%s: spok crashed: %s", where, tail(stderr, 600))}
			}
			began := func(n string) bool { return contains(log, "begin:"+n) }
			ended := func(n string) bool { return contains(log, "end:"+n) }
			cl := c.closure(st.Tasks)
			cacheErr := res.Exit != 0 && !killed && strings.Contains(strings.ToLower(stderr), "cache")
			injected := false
			for _, f := range st.Fail {
				if began(f) {
					injected = true
				}
			}
			// skipped tasks: reported in the output, or (when the run succeeded) in the closure without a begin marker
			out := sandbox.Strip(res.Stdout)
			for name := range cl {
				skipped := strings.Contains(out, fmt.Sprintf("Task %q skipped", name))
				if res.Exit == 0 && !killed && !began(name) {
					skipped = true
				}
				if !skipped {
					continue
				}
				ts := state[name]
				if began(name) {
					return &rp.Fail{Sig: "skipped-but-executed", Size: size, Msg: fmt.Sprintf("%s: task %s reported skipped but ran", where, name)}
				}
				if ts.last == nil || *ts.last != now[name] {
					why := "its dependency files differ from those of its last successful completion"
					if ts.last == nil {
						why = "it never completed successfully since the cache was (re)created"
					}
					sig := "wrong-skip"
					if faultSeen {
						sig = "wrong-skip-after-fault"
					}
					return &rp.Fail{Sig: sig, Size: size, Msg: fmt.Sprintf("%s: task %s skipped although %s", where, name, why)}
				}
			}
			if !killed && res.Exit != 0 && !injected && !cacheErr {
				// neither normal behaviour nor an explicit cache error (a missing literal dependency is reported by the hasher)
				if !strings.Contains(stderr, "Could not get hash result") {
					return &rp.Fail{Sig: "unexplained-failure", Size: size, Msg: fmt.Sprintf("%s: failed without an injected failure and without an error about the cache: %s", where, tail(stderr, 400))}
				}
			}
			if faultSeen && fileActAfterFault {
				for name := range cl {
					if ts := state[name]; ts.last != nil && *ts.last != now[name] {
						faultThenDiffRun = true
					}
				}
			}
			// model update from the log
			for _, t := range c.Tasks {
				ts := state[t.Name]
				switch {
				case ended(t.Name):
					sn := now[t.Name]
					ts.last, ts.tainted = &sn, false
				case began(t.Name):
					ts.tainted = true
				}
			}
			if killed {
				faultSeen = true
				if s != nil {
					if st.Sys != "" {
						s.Class("fault_killed_at_syscall_" + st.Sys)
					} else {
						s.Class("fault_killed_in_task")
					}
				}
			}
			if cacheErr && s != nil {
				s.Class("explicit_cache_error")
			}
		}
	}
	if s != nil && faultThenDiffRun {
		s.NonTrivial(src + fmt.Sprint(c.Init, c.Steps))
	}
	return nil
}

func tail(s string, n int) string {
	if len(s) <= n {
		return s
	}
	return s[len(s)-n:]
}
