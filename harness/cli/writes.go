package cli

import (
	"fmt"
	"os"
	"path/filepath"
	"sort"
	"strings"

	"github.com/FollowTheProcess/spok/parser"
	"pgregory.net/rapid"

	"verif/ev"
	"verif/gen"
	"verif/rp"
	"verif/sandbox"
)

// WriteCase is a C19 case: a project tree, a spokfile of some class and an action.
type WriteCase struct {
	Tree      []string `json:"tree"`
	GitIgnore *string  `json:"gitignore"` // nil: absent
	DotEnv    bool     `json:"dotenv"`
	Class     string   `json:"class"` // valid lexerr parseerr loaderr absent
	Src       string   `json:"src"`
	Flags     []string `json:"flags"`
	Tasks     []string `json:"tasks"`
	Nested    bool     `json:"nested"`
	PreCache  bool     `json:"pre_cache"`
	// SpokLink: the spokfile is a symbolic link to conf/spokfile (which holds the text); the
	// project directory — cache, globs, .env — is still where the link is
	SpokLink bool `json:"spok_link,omitempty"`
	// Elsewhere: spok is started in a directory outside the project with --spokfile <project>/spokfile
	Elsewhere bool `json:"elsewhere,omitempty"`
	// BadName: --spokfile names an existing file called Spokfile (wrong case): spok must refuse it
	BadName bool `json:"bad_name,omitempty"`
	// Prior: the same invocation is made this many times before the one that is judged; EditDep:
	// main.go (a file the tasks' glob dependency matches) is rewritten before the judged invocation,
	// so that tasks which were skipped run again. bin/out, a declared output, exists all along.
	Prior   int  `json:"prior,omitempty"`
	EditDep bool `json:"edit_dep,omitempty"`
	// InitElsewhere: `spok --init --spokfile ../../spokfile` from nested/dir: --init creates a spokfile
	// in the working directory or refuses; the spokfile the other flag points at is none of its business
	InitElsewhere bool `json:"init_elsewhere,omitempty"`
	// ProjDir names the project directory ("" = proj)
	ProjDir string `json:"proj_dir,omitempty"`
	// ROGitIgnore: the existing .gitignore files cannot be written by the user running spok: --init
	// may fail to append, it may not damage or remove them
	ROGitIgnore bool `json:"ro_gitignore,omitempty"`
	// InitUnlistable: `spok --init` in nested/dir, which already holds a spokfile and whose mode is 0300
	// (its owner may enter it and create files, not list it): the existing spokfile stays as it is
	InitUnlistable bool `json:"init_unlistable,omitempty"`
	// ROSpok: the spokfile cannot be written by the user running spok (its directory can): --fmt may
	// fail; whatever it does about that, it does it to the spokfile and to nothing else
	ROSpok bool `json:"ro_spok,omitempty"`
}

var writeTreePool = []string{"main.go", "pkg/a.go", "pkg/sub/b.go", "docs/readme.md", "nested/dir/x.txt", "Makefile", "data/", "nested/.hidden", "spokfile.tmp", "spokfile.bak", ".spokfile.swp", "spokfile~"}
var writeFlags = []string{"--show", "--vars", "--fmt", "--init", "--force", "--quiet", "--json", "--debug"}
var safeCmds = []string{"echo hi", "true", "printf x", "echo {{.V}}", "echo a b  c", "test -f main.go", "echo done 1>&2", "printf 'working\rdone'",
	// what the shell spok embeds (a bash dialect) reads as tests and arithmetic, not as redirections
	"[[ b > a ]] && echo yes", "if [[ {{.V}} > 1 ]]; then echo newer; fi", "echo $((4 > 3))", "[[ a < b ]] || echo no"}
var invalidSources = map[string][]string{
	"lexerr":   {"task build( {\n", "X := \"unterminated\n", "task t() {\n    echo hi\n", "$$$\n", "task t() -> {\n}\n"},
	"parseerr": {"X :=\n", "X\n", "task t(\"a\" \"b\") -> (,", "task () -> (\n"},
	"loaderr":  {"X := nope(\"a\")\n", "task a() {\n}\ntask a() {\n}\n", "X := exec(\"exit 3\")\n", "A := \"x\"\nX := join(A)\n", "task t() {\n    echo {{.X\n}\n"},
}

func genWrite(t *rapid.T) WriteCase {
	c := WriteCase{}
	for _, p := range writeTreePool {
		if rapid.IntRange(0, 2).Draw(t, "tree_"+p) != 0 {
			c.Tree = append(c.Tree, p)
		}
	}
	// existing .gitignore shapes: no final newline, empty, blank lines at either end, trailing
	// blanks on the last line, CRLF — --init may only append to whatever is there
	gitignores := []string{"bin/\n*.log", "", "\n\n  lead\nbin/\n\n\n", "a\r\nb\r\n", "x \t\n", "node_modules/\n"}
	// long ones: 4096 bytes exactly, one more, and some 8 KB (sizes at which buffered readers turn a page)
	line := "build/output-directory-number-0000/\n"
	gitignores = append(gitignores, strings.Repeat(line, 4096/len(line))+strings.Repeat("#", 4096%len(line)-1)+"\n", strings.Repeat(line, 4096/len(line))+strings.Repeat("#", 4096%len(line))+"\n", strings.Repeat(line, 230), strings.Repeat("a\r\n", 1500))
	if k := rapid.IntRange(0, len(gitignores)).Draw(t, "gitignore"); k > 0 {
		g := gitignores[k-1]
		c.GitIgnore = &g
	}
	c.DotEnv = rapid.IntRange(0, 3).Draw(t, "dotenv") == 3
	c.Nested = rapid.IntRange(0, 2).Draw(t, "nested") == 2
	c.PreCache = rapid.IntRange(0, 2).Draw(t, "precache") == 2
	c.SpokLink = rapid.IntRange(0, 5).Draw(t, "spoklink") == 5
	c.Elsewhere = rapid.IntRange(0, 5).Draw(t, "elsewhere") == 5
	c.BadName = rapid.IntRange(0, 9).Draw(t, "badname") == 9
	var taskNames []string
	switch k := rapid.IntRange(0, 9).Draw(t, "class"); {
	case k < 5:
		c.Class = "valid"
		// an abstract program in a random layout, restricted to side-effect-free commands
		var stmts []gen.Stmt
		stmts = append(stmts, gen.Stmt{Kind: "assign", Name: "V", ValKind: "string", ValText: "value"})
		n := rapid.IntRange(0, 4).Draw(t, "nstmts")
		for i := 0; i < n; i++ {
			switch rapid.IntRange(0, 3).Draw(t, "kind") {
			case 0:
				stmts = append(stmts, gen.Stmt{Kind: "comment", Text: gen.CommentText(t, "comment")})
			case 1:
				stmts = append(stmts, gen.Stmt{Kind: "assign", Name: "W" + string(rune('a'+i)), ValKind: "func", ValText: "join", Args: []gen.Arg{{Str: true, Text: "a"}, {Str: true, Text: "b"}}})
			default:
				name := []string{"build", "lint", "default", "check", "zz"}[i]
				if rapid.IntRange(0, 2).Draw(t, "flaglike_name") == 0 {
					// a task may be called what a flag or an action is called
					name = []string{"init", "fmt", "vars", "show", "version"}[i]
				}
				st := gen.Stmt{Kind: "task", Name: name}
				if rapid.Bool().Draw(t, "doc") {
					st.HasDoc, st.Doc = true, " does "+name
				}
				if rapid.Bool().Draw(t, "filedep") {
					st.Deps = append(st.Deps, gen.Arg{Str: true, Text: "**/*.go"})
				}
				if rapid.IntRange(0, 2).Draw(t, "out") == 2 {
					st.Outs = append(st.Outs, gen.Arg{Str: true, Text: "bin/out"})
				}
				nc := rapid.IntRange(0, 3).Draw(t, "ncmds")
				for j := 0; j < nc; j++ {
					st.Cmds = append(st.Cmds, rapid.SampledFrom(safeCmds).Draw(t, "cmd"))
				}
				stmts = append(stmts, st)
				taskNames = append(taskNames, name)
			}
		}
		c.Src = gen.Render(gen.RapidChooser{T: t}, gen.Normalize(stmts))
	case k == 5:
		// an existing spokfile without any content is a valid (empty) spokfile
		c.Class = "valid"
		c.Src = rapid.SampledFrom([]string{"", "\n", "# only a comment\n"}).Draw(t, "tiny")
	case k < 9:
		c.Class = []string{"lexerr", "parseerr", "loaderr"}[rapid.IntRange(0, 2).Draw(t, "invalid")]
		c.Src = rapid.SampledFrom(invalidSources[c.Class]).Draw(t, "src")
	default:
		c.Class = "absent"
	}
	for _, f := range writeFlags {
		if rapid.IntRange(0, 3).Draw(t, "flag_"+f) == 3 {
			c.Flags = append(c.Flags, f)
		}
	}
	if c.Class == "valid" && !hasFlag(c.Flags, "--init") && rapid.IntRange(0, 2).Draw(t, "history") == 0 {
		c.Prior = rapid.IntRange(1, 2).Draw(t, "prior")
		c.EditDep = rapid.Bool().Draw(t, "edit_dep")
	}
	if c.Class != "absent" && rapid.IntRange(0, 9).Draw(t, "init_elsewhere") == 0 {
		c.InitElsewhere = true
		if !hasFlag(c.Flags, "--init") {
			c.Flags = append(c.Flags, "--init")
		}
		c.Prior, c.EditDep, c.Nested = 0, false, true
	}
	if hasFlag(c.Flags, "--init") && !c.InitElsewhere && rapid.IntRange(0, 3).Draw(t, "init_unlistable") == 0 {
		c.InitUnlistable, c.Nested = true, true
	}
	c.ROSpok = c.Class == "valid" && hasFlag(c.Flags, "--fmt") && !hasFlag(c.Flags, "--init") && rapid.IntRange(0, 2).Draw(t, "ro_spok") == 0
	c.ProjDir = genProjDir(t)
	c.ROGitIgnore = c.GitIgnore != nil && rapid.IntRange(0, 3).Draw(t, "ro_gitignore") == 0
	nt := rapid.IntRange(0, 2).Draw(t, "ntasks")
	for i := 0; i < nt; i++ {
		pool := append([]string{"nosuchtask"}, taskNames...)
		c.Tasks = append(c.Tasks, rapid.SampledFrom(pool).Draw(t, "task"))
	}
	return c
}

func hasFlag(flags []string, f string) bool { return contains(flags, f) }

func execWrite(s *ev.Shard, b *sandbox.Box, c WriteCase) *rp.Fail {
	if err := b.ResetAs(c.ProjDir); err != nil {
		return &rp.Fail{Sig: "harness", Msg: err.Error()}
	}
	files := map[string]string{"nested/dir/": ""}
	for _, p := range c.Tree {
		if strings.HasSuffix(p, "/") {
			files[p] = ""
		} else {
			files[p] = "// " + p + "\n"
		}
	}
	if c.Class != "absent" {
		if c.SpokLink {
			files["conf/spokfile"] = c.Src
		} else {
			files["spokfile"] = c.Src
		}
	}
	if c.Class == "valid" {
		files["bin/out"] = "an artifact of an earlier build\n"
	}
	if c.Class == "valid" && !c.SpokLink {
		files["conf/Spokfile"] = c.Src
		files["conf/spokfile"] = "# an unrelated spokfile\n"
	}
	if c.GitIgnore != nil {
		files[".gitignore"] = *c.GitIgnore
		files["nested/dir/.gitignore"] = *c.GitIgnore
	}
	if c.DotEnv {
		files[".env"] = "FROM_DOTENV=1\n"
	}
	if c.PreCache && c.Class != "absent" {
		files[".spok/cache.json"] = "{}"
	}
	if err := writeProject(b, b.Proj, files); err != nil {
		return &rp.Fail{Sig: "harness", Msg: err.Error()}
	}
	if c.Class != "absent" && c.SpokLink {
		lp := filepath.Join(b.Proj, "spokfile")
		if err := os.Symlink("conf/spokfile", lp); err != nil {
			return &rp.Fail{Sig: "harness", Msg: err.Error()}
		}
		_ = os.Lchown(lp, 65534, 65534)
	}
	if c.InitUnlistable {
		nd := filepath.Join(b.Proj, "nested", "dir")
		_ = os.WriteFile(filepath.Join(nd, "spokfile"), []byte("# keep me\ntask keep() {\n    true\n}\n"), 0o644)
		_ = os.Lchown(filepath.Join(nd, "spokfile"), 65534, 65534)
		_ = os.Chmod(nd, 0o300)
		defer os.Chmod(nd, 0o755)
	}
	if c.ROGitIgnore {
		_ = os.Chmod(filepath.Join(b.Proj, ".gitignore"), 0o444)
		_ = os.Chmod(filepath.Join(b.Proj, "nested", "dir", ".gitignore"), 0o444)
	}
	if err := writeProject(b, b.Home, map[string]string{"beside.txt": "beside", "elsewhere/": "", "elsewhere/other.txt": "o"}); err != nil {
		return &rp.Fail{Sig: "harness", Msg: err.Error()}
	}
	pr := filepath.Base(b.Proj) // the project directory's name
	cwd, cwdRel := b.Proj, pr
	if c.Nested {
		cwd, cwdRel = filepath.Join(b.Proj, "nested", "dir"), pr+"/nested/dir"
	}
	size := len(c.Flags) + len(c.Tasks) + len(c.Src)/20 + len(c.Tree)/3
	args := append(append([]string(nil), c.Flags...), c.Tasks...)
	if c.Prior > 0 && !hasFlag(c.Flags, "--init") {
		for k := 0; k < c.Prior; k++ {
			if r0 := b.Run(cwd, nil, runTimeout, args...); r0.TimedOut {
				return &rp.Fail{Sig: "harness", Msg: "spok timed out"}
			}
		}
		if c.EditDep {
			if err := sandbox.Write(b.Proj, "main.go", "// main.go, edited\n"); err != nil {
				return &rp.Fail{Sig: "harness", Msg: err.Error()}
			}
			_ = b.Own()
		}
	}
	if c.ROSpok && c.Class != "absent" {
		real := filepath.Join(b.Proj, "spokfile")
		if c.SpokLink {
			real = filepath.Join(b.Proj, "conf", "spokfile")
		}
		_ = os.Chmod(real, 0o444)
	}
	before, err := sandbox.Snapshot(b.Home)
	if err != nil {
		return &rp.Fail{Sig: "harness", Msg: err.Error()}
	}
	if c.InitElsewhere {
		args = append([]string{"--spokfile", "../../spokfile"}, args...)
	}
	if c.Elsewhere && c.Class != "absent" && !hasFlag(c.Flags, "--init") && c.Prior == 0 {
		// everything spok may touch still sits next to the spokfile, not in the working directory
		cwd, cwdRel = filepath.Join(b.Home, "elsewhere"), "elsewhere"
		args = append([]string{"--spokfile", filepath.Join(b.Proj, "spokfile")}, args...)
	}
	badName := c.BadName && c.Class == "valid" && !c.SpokLink && !hasFlag(c.Flags, "--init")
	if badName {
		// a file whose name differs from "spokfile" only by case is not a spokfile
		args = append([]string{"--spokfile", filepath.Join(b.Proj, "conf", "Spokfile")}, append(append([]string(nil), c.Flags...), c.Tasks...)...)
	}
	res := b.Run(cwd, nil, runTimeout, args...)
	if res.TimedOut {
		return &rp.Fail{Sig: "harness", Msg: "spok timed out"}
	}
	after, err := sandbox.Snapshot(b.Home)
	if err != nil {
		return &rp.Fail{Sig: "harness", Msg: err.Error()}
	}
	changes := sandbox.Diff(before, after)
	desc := fmt.Sprintf("tree %v, spokfile class %s %q, cwd %s: `spok %s` (exit %d)", c.Tree, c.Class, c.Src, cwdRel, strings.Join(args, " "), res.Exit)
	if c.Prior > 0 {
		desc = fmt.Sprintf("tree %v, spokfile class %s %q, cwd %s: `spok %s` (exit %d) after %d earlier invocation(s) of the same kind%s", c.Tree, c.Class, c.Src, cwdRel, strings.Join(args, " "), res.Exit, c.Prior, map[bool]string{true: " and an edit of main.go"}[c.EditDep])
	}

	// what may change
	allowed := map[string]string{} // path -> what is allowed
	spokRel := pr + "/spokfile"
	switch {
	case hasFlag(c.Flags, "--init"):
		target := cwdRel + "/spokfile"
		if _, exists := before[target]; !exists {
			allowed[target] = "created"
			if _, ok := before[cwdRel+"/.gitignore"]; ok {
				allowed[cwdRel+"/.gitignore"] = "modified"
			} else {
				allowed[cwdRel+"/.gitignore"] = "created"
			}
		} else if res.Exit == 0 {
			return &rp.Fail{Sig: "init-over-existing-spokfile", Size: size, Msg: fmt.Sprintf("%s: a spokfile already exists in the current directory but --init succeeded", desc)}
		}
	case hasFlag(c.Flags, "--fmt") && c.Class == "valid":
		if c.SpokLink {
			// the text lives behind the link: the link itself stays what it is
			spokRel = pr + "/conf/spokfile"
		}
		allowed[spokRel] = "modified"
	}
	if badName {
		if res.Exit == 0 {
			return &rp.Fail{Sig: "accepted-wrong-spokfile-name", Size: size, Msg: fmt.Sprintf("%s: --spokfile names a file called Spokfile, which spok must refuse", desc)}
		}
		allowed = map[string]string{}
	}
	for _, ch := range changes {
		if badName {
			return &rp.Fail{Sig: "wrote-outside-permitted-set", Size: size, Msg: fmt.Sprintf("%s: the spokfile name was refused, yet %s was %s", desc, ch.Path, ch.What)}
		}
		if c.Class != "absent" && !hasFlag(c.Flags, "--init") && sandbox.Under(ch.Path, pr+"/.spok") {
			continue // the cache directory next to the spokfile
		}
		if what, ok := allowed[ch.Path]; ok && what == ch.What {
			continue
		}
		sig := "wrote-outside-permitted-set"
		switch {
		case ch.Path == spokRel || ch.Path == pr+"/spokfile" || ch.Path == pr+"/conf/spokfile":
			sig = "spokfile-touched"
		case strings.HasSuffix(ch.Path, ".gitignore"):
			sig = "gitignore-touched"
		}
		return &rp.Fail{Sig: sig, Size: size, Msg: fmt.Sprintf("%s: %s was %s, which this action does not permit", desc, ch.Path, ch.What)}
	}
	// content rules
	if hasFlag(c.Flags, "--init") {
		gi := cwdRel + "/.gitignore"
		if be, ok := before[gi]; ok {
			if af, ok2 := after[gi]; ok2 && af != be {
				old := ""
				if c.GitIgnore != nil {
					old = *c.GitIgnore
				}
				now, _ := readFile(filepath.Join(b.Home, gi))
				if !strings.HasPrefix(now, old) {
					return &rp.Fail{Sig: "gitignore-touched", Size: size, Msg: fmt.Sprintf("%s: .gitignore was rewritten instead of appended to: %q -> %q", desc, old, now)}
				}
			}
		}
	}
	if _, ch := allowed[spokRel]; ch && !hasFlag(c.Flags, "--init") {
		if be, af := before[spokRel], after[spokRel]; be != af {
			tree, perr := parser.New(c.Src).Parse()
			now, _ := readFile(filepath.Join(b.Home, spokRel))
			if perr != nil || now != tree.String() {
				return &rp.Fail{Sig: "spokfile-touched", Size: size, Msg: fmt.Sprintf("%s: --fmt rewrote the spokfile to %q, the formatter gives %q (parse error %v)", desc, now, tree.String(), perr)}
			}
		}
	}
	if s != nil {
		if hasFlag(c.Flags, "--fmt") || hasFlag(c.Flags, "--init") || (c.Class != "valid") || c.Nested {
			s.NonTrivial(desc)
		}
		s.Class("spokfile_" + c.Class)
		for _, f := range c.Flags {
			s.Class("flag_" + f)
		}
		if len(changes) > 0 {
			s.Class("something_changed")
		}
	}
	return nil
}

func readFile(p string) (string, error) {
	data, err := osReadFile(p)
	return string(data), err
}

func sortedChanges(cs []sandbox.Change) []string {
	var out []string
	for _, c := range cs {
		out = append(out, c.Path+":"+c.What)
	}
	sort.Strings(out)
	return out
}
