package gen

import (
	"fmt"
	"strings"

	"pgregory.net/rapid"
)

// Soup is the permissive-grammar generator: it follows the lexer's real transitions
// rather than the documented syntax (several statements on one line, missing commas,
// task with an empty name, identifiers right of ':=', empty / whitespace-only comments in
// runs, comments after a call, task-prefixed identifiers, CR/LF mixes, junk symbols).
// Roughly two thirds of its outputs parse; the rest exercise the error paths.

var soupIdents = []string{"a", "X", "ab", "NAME", "é", "_", "tasky", "taskX", "tasks", "task_a", "task", "t", "join", "exec", "中", ""}
var soupStrings = []string{`""`, `"a"`, `"a b"`, `" x "`, `"*.go"`, `"#"`, `"{"`, `"}"`, `"a, b"`, `"é"`, `"->"`, `":="`, `"task"`, `"x`, `x"`, `"a\t"`, `"100%"`, `"%s%d"`, `"%!v(x)%"`, `"{{.X}}"`, `"\\"`, "\"\nsrc\"", "\"\n\"", "\"\r\n x\"", "\"a\nb\"", "\"" + strings.Repeat("é", 25), "\"" + strings.Repeat("中", 14) + "\"", "\"" + strings.Repeat("中", 14), "\"" + strings.Repeat("x", 41), "\"" + strings.Repeat("é", 41) + "\""}
var soupComments = []string{"", " ", "  ", "\t", " a", "a", " doc text", " a  b ", "#", "# x", " task t() {}", " \"q\"", " é", "0", " x := 1"}
var soupCmds = []string{"task build", "task", "printf [%s] a\\ \\  ", "echo a  ", "echo {{.A |", "upper}} x", "echo {{", "}} y", "a\r", "echo hi\r", "x \r", "a\r\r", "b\r ", "go test ./...", "echo {{.X}}", "a", "echo hi ", "echo \"x\"", "x\t", "echo hi\t ", "ls -la | wc", "echo {{.A}}{{.B}}", "é", "echo #c", "echo }", "1x", "echo {", "echo {{.X}} ", "b  c"}
var soupSeps = []string{"\n", "\n", "\n", "\n", "\r\n", "\r\n", " ", " ", "", "\n\n", "\t", "\r", "\n \n", " \n"}
var soupSp = []string{"", "", " ", " ", "\t", "  ", "\n"}
var soupJunk = append(append([]string(nil), Alphabet...), soupStrings...)

// stray writes, now and then, a token where none belongs (a second string after an output, an
// identifier before a brace, ...): the shapes behind "expected X, found Y" errors.
func stray(t *rapid.T, b *strings.Builder, label string) {
	if rapid.IntRange(0, 19).Draw(t, label+"_stray") == 0 {
		b.WriteString(soupPick(t, label+"_stray_tok", soupJunk))
		b.WriteString(soupPick(t, label+"_stray_sp", soupSp))
	}
}

func soupPick(t *rapid.T, label string, from []string) string {
	return from[rapid.IntRange(0, len(from)-1).Draw(t, label)]
}

// soupIdent picks an identifier; once in a while a letter of some other script is glued on, also
// directly behind the keyword-like prefix "task".
func soupIdent(t *rapid.T, label string) string {
	id := soupPick(t, label, soupIdents)
	switch rapid.IntRange(0, 11).Draw(t, label+"_wide") {
	case 0:
		return id + string(WideLetter(t, label+"_letter"))
	case 1:
		return "task" + string(WideLetter(t, label+"_letter"))
	}
	return id
}

func soupArgs(t *rapid.T, b *strings.Builder) {
	n := rapid.IntRange(0, 3).Draw(t, "nargs")
	for i := 0; i < n; i++ {
		if rapid.IntRange(0, 2).Draw(t, "argkind") == 0 {
			b.WriteString(soupIdent(t, "argid"))
		} else {
			b.WriteString(soupPick(t, "argstr", soupStrings))
		}
		if i < n-1 || rapid.IntRange(0, 4).Draw(t, "trail") == 0 {
			switch rapid.IntRange(0, 9).Draw(t, "argsep") {
			case 0:
				b.WriteString(" ")
			case 1:
				b.WriteString(" , ")
			case 2:
				b.WriteString(",")
			case 3:
				b.WriteString(",,")
			case 4:
				b.WriteString(",\n    ")
			case 5:
				b.WriteString("\n")
			default:
				b.WriteString(", ")
			}
		}
	}
}

// Soup draws one permissive input.
func Soup(t *rapid.T) string {
	var b strings.Builder
	if rapid.IntRange(0, 24).Draw(t, "bom") == 0 {
		b.WriteString("\uFEFF") // a byte order mark, as written by some editors
	}
	if rapid.IntRange(0, 5).Draw(t, "leadsep") == 0 {
		b.WriteString(soupPick(t, "sep", soupSeps))
	}
	n := rapid.IntRange(0, 6).Draw(t, "nitems")
	for i := 0; i < n; i++ {
		switch rapid.IntRange(0, 15).Draw(t, "item") {
		case 0, 1, 2, 3, 4:
			b.WriteString("#")
			b.WriteString(soupPick(t, "comment", soupComments))
		case 5, 6, 7, 8:
			b.WriteString(soupIdent(t, "var"))
			b.WriteString(soupPick(t, "sp", soupSp))
			if rapid.IntRange(0, 11).Draw(t, "declare") != 0 {
				b.WriteString(":=")
			}
			b.WriteString(soupPick(t, "sp", soupSp))
			stray(t, &b, "beforerhs")
			switch rapid.IntRange(0, 5).Draw(t, "rhs") {
			case 0:
				b.WriteString(soupIdent(t, "rhsid"))
			case 1, 2:
				b.WriteString(soupIdent(t, "fn"))
				b.WriteString("(")
				soupArgs(t, &b)
				if rapid.IntRange(0, 9).Draw(t, "fnrparen") != 0 {
					b.WriteString(")")
				}
			default:
				b.WriteString(soupPick(t, "rhsstr", soupStrings))
			}
		case 15:
			k := rapid.IntRange(1, 3).Draw(t, "njunk")
			for j := 0; j < k; j++ {
				b.WriteString(soupPick(t, "junk", soupJunk))
			}
		default:
			b.WriteString("task")
			b.WriteString(soupPick(t, "sp", soupSp))
			b.WriteString(soupIdent(t, "tname"))
			b.WriteString(soupPick(t, "sp", soupSp))
			stray(t, &b, "aftername")
			if rapid.IntRange(0, 14).Draw(t, "lparen") != 0 {
				b.WriteString("(")
			}
			soupArgs(t, &b)
			if rapid.IntRange(0, 14).Draw(t, "rparen") != 0 {
				b.WriteString(")")
			}
			b.WriteString(soupPick(t, "sp", soupSp))
			switch rapid.IntRange(0, 7).Draw(t, "outs") {
			case 0:
				b.WriteString("->")
				b.WriteString(soupPick(t, "sp", soupSp))
				b.WriteString(soupPick(t, "outstr", soupStrings))
			case 1:
				b.WriteString("->")
				b.WriteString(soupPick(t, "sp", soupSp))
				b.WriteString(soupIdent(t, "outid"))
			case 2:
				b.WriteString("->")
				b.WriteString(soupPick(t, "sp", soupSp))
				b.WriteString("(")
				soupArgs(t, &b)
				if rapid.IntRange(0, 9).Draw(t, "outrp") != 0 {
					b.WriteString(")")
				}
			}
			b.WriteString(soupPick(t, "sp", soupSp))
			stray(t, &b, "beforebrace")
			if rapid.IntRange(0, 14).Draw(t, "lbrace") != 0 {
				b.WriteString("{")
			}
			nc := rapid.IntRange(0, 3).Draw(t, "ncmds")
			oneLine := rapid.IntRange(0, 3).Draw(t, "oneline") == 0
			for j := 0; j < nc; j++ {
				if oneLine {
					b.WriteString(soupPick(t, "csp", []string{" ", "", "  "}))
				} else {
					b.WriteString(soupPick(t, "cnl", []string{"\n    ", "\n", "\r\n\t", "\n\n  ", " ", "\r\r\n", " \r\n "}))
				}
				b.WriteString(soupPick(t, "cmd", soupCmds))
			}
			if oneLine {
				b.WriteString(soupPick(t, "csp", []string{" ", "", "  "}))
			} else {
				b.WriteString(soupPick(t, "cnl", []string{"\n", "\n", "\r\n", "", " ", "\r", "\r\r\n", "  ", "\n\r", "\n\t\r"}))
			}
			if rapid.IntRange(0, 14).Draw(t, "rbrace") != 0 {
				b.WriteString("}")
			}
		}
		if i < n-1 || rapid.IntRange(0, 2).Draw(t, "endsep") != 0 {
			b.WriteString(soupPick(t, "sep", soupSeps))
		}
	}
	return b.String()
}

// WithHugeLine puts, once in about forty inputs, a line of roughly 64 KiB (where line-oriented
// readers give up) in front of, behind, or after the first line of x: as a comment, a string
// variable, or the command of a task. Sizes are not narrowed just because most lines are short.
func WithHugeLine(t *rapid.T, x string) string {
	if rapid.IntRange(0, 39).Draw(t, "huge_line") != 0 {
		return x
	}
	long := strings.Repeat("x", rapid.IntRange(65500, 65600).Draw(t, "huge_len"))
	var line string
	switch rapid.IntRange(0, 2).Draw(t, "huge_kind") {
	case 0:
		line = "#" + long
	case 1:
		line = "HUGE := \"" + long + "\""
	default:
		line = "task huge() { echo " + long + " }"
	}
	switch rapid.IntRange(0, 2).Draw(t, "huge_where") {
	case 0:
		return line + "\n" + x
	case 1:
		if i := strings.IndexByte(x, '\n'); i >= 0 {
			return x[:i+1] + line + "\n" + x[i+1:]
		}
		return x + "\n" + line
	default:
		return x + "\n" + line + "\n"
	}
}

// WithStrayBytes inserts, once in about fifteen inputs, a byte sequence that is not valid UTF-8
// (Latin-1 text, a lone continuation or lead byte) right after a '#' or a '"' or at a random place:
// files in legacy encodings exist, and comments and strings are where their odd bytes live.
func WithStrayBytes(t *rapid.T, x string) string {
	if rapid.IntRange(0, 14).Draw(t, "stray_bytes") != 0 {
		return x
	}
	var spots []int
	for i := 0; i < len(x); i++ {
		if x[i] == '#' || x[i] == '"' {
			spots = append(spots, i+1)
		}
	}
	pos := rapid.IntRange(0, len(x)).Draw(t, "stray_pos")
	if len(spots) > 0 && rapid.IntRange(0, 3).Draw(t, "stray_anywhere") != 0 {
		pos = spots[rapid.IntRange(0, len(spots)-1).Draw(t, "stray_spot")]
	}
	b := rapid.SampledFrom([]string{"caf\xe9", "\xe9", "\xff", "\xc3", "\xa0", "\x80\x80", "\xed\xa0\x80", "\xf5"}).Draw(t, "stray_seq")
	return x[:pos] + b + x[pos:]
}

// WithManyStatements puts, once in about a hundred inputs, one to six thousand short statements in
// front of x (comments, variables, small documented tasks): files are not always small, and
// nothing in the syntax bounds their length.
func WithManyStatements(t *rapid.T, x string) string {
	if rapid.IntRange(0, 99).Draw(t, "many_statements") != 0 {
		return x
	}
	n := rapid.IntRange(1000, 6000).Draw(t, "how_many")
	kind := rapid.IntRange(0, 2).Draw(t, "many_kind")
	var b strings.Builder
	for i := 0; i < n; i++ {
		switch kind {
		case 0:
			b.WriteString("# note\n")
		case 1:
			fmt.Fprintf(&b, "# about v\nV := \"%c\"\n\n", 'a'+rune(i%26))
		default:
			fmt.Fprintf(&b, "# note\n\nX := \"v\"\n\n# does t\ntask t%s() {\n    echo hi\n}\n\n", letters(i))
		}
	}
	return b.String() + x
}

// Letters spells i with letters only (identifiers have no digits).
func Letters(i int) string { return letters(i) }

func letters(i int) string {
	s := ""
	for {
		s = string(rune('a'+i%26)) + s
		i /= 26
		if i == 0 {
			return s
		}
	}
}
