package gen

import (
	"strings"
	"unicode"

	"pgregory.net/rapid"
)

// RapidChooser draws layout decisions from rapid.
type RapidChooser struct{ T *rapid.T }

// Choose implements Chooser.
func (r RapidChooser) Choose(label string, n int) int {
	if n <= 1 {
		return 0
	}
	return rapid.IntRange(0, n-1).Draw(r.T, label)
}

// Small implements Chooser.
func (RapidChooser) Small() bool { return false }

// WideLetters holds one letter from every block of 64 code points of the Basic Multilingual Plane
// that has one (so every UTF-8 lead byte and a spread of continuation bytes occurs), plus a few
// letters beyond it.
var WideLetters = func() []rune {
	var out []rune
	for base := rune(0x80); base < 0x10000; base += 64 {
		for r := base; r < base+64; r++ {
			if unicode.IsLetter(r) {
				out = append(out, r)
				break
			}
		}
	}
	return append(out, 0x10400, 0x1D400, 0x20000, 0x1E900)
}()

// LeadLetters holds one letter for every UTF-8 lead byte that starts a letter at all: slips that
// treat bytes as characters depend on the lead byte, and some lead bytes cover a single script.
var LeadLetters = func() []rune {
	seen := map[byte]bool{}
	var out []rune
	for r := rune(0x80); r < 0x30000; r++ {
		if unicode.IsLetter(r) {
			if b := string(r)[0]; !seen[b] {
				seen[b] = true
				out = append(out, r)
			}
		}
	}
	return out
}()

// WideLetter draws a non-ASCII letter: half the time by lead byte, half the time by block.
func WideLetter(t *rapid.T, label string) rune {
	if rapid.Bool().Draw(t, label+"_bylead") {
		return rapid.SampledFrom(LeadLetters).Draw(t, label+"_lead")
	}
	return rapid.SampledFrom(WideLetters).Draw(t, label+"_block")
}

// WideRunes: printable and odd non-ASCII runes that are not letters (signs whose UTF-8 bytes look like
// letters in Latin-1 and the other way round, spaces and line separators that are not '\n', marks).
var WideRunes = []rune{0xD7, 0xF7, 0xA0, 0x85, 0x2028, 0x2029, 0xFEFF, 0x301, 0x200B, 0x3000, 0x5BE, 0x5F3, 0x2013, 0x20AC, 0x1F600, 0xFFFD, 0x7F, 0x1}

var identRunes = []rune("abcdefghijklmnopqrstuvwxyzABCDEFGHIJKLMNOPQRSTUVWXYZ___éßλ中Ж")

// ReservedWords: names that mean something in a language spok is written in, embeds or sits next
// to (Go, the shell, make, JSON, its own flags) and mean nothing special in a spokfile.
var ReservedWords = []string{"go", "default", "type", "import", "range", "for", "if", "else", "func", "var", "const", "return", "map", "chan", "select", "case", "switch", "break", "continue", "defer", "goto", "package", "struct", "interface", "fallthrough",
	"do", "done", "fi", "then", "elif", "esac", "in", "while", "until", "function", "time", "true", "false", "nil", "null", "all", "clean", "init", "fmt", "show", "vars", "version", "help", "force", "spokfile", "GLOBAL", "nan", "inf"}

// Ident draws an identifier: letters (also non-ASCII) and '_' only — digits are not
// identifier characters in spok. The bare keyword "task" is never produced.
func Ident(t *rapid.T, label string) string {
	s := string(rapid.SliceOfN(rapid.SampledFrom(identRunes), 1, 8).Draw(t, label))
	if rapid.IntRange(0, 5).Draw(t, label+"_wide") == 0 {
		// letters of any script: one position of the name is replaced
		r := []rune(s)
		r[rapid.IntRange(0, len(r)-1).Draw(t, label+"_wide_pos")] = WideLetter(t, label+"_wide_letter")
		s = string(r)
	}
	if rapid.IntRange(0, 19).Draw(t, label+"_taskprefix") == 0 {
		if rapid.Bool().Draw(t, label+"_taskprefix_wide") {
			// the keyword-like prefix directly followed by a letter of any script
			s = string(WideLetter(t, label+"_taskprefix_letter")) + s
		}
		s = "task" + s
	}
	if s == "task" {
		s = "tasks"
	}
	if rapid.IntRange(0, 14).Draw(t, label+"_reserved") == 0 {
		s = rapid.SampledFrom(ReservedWords).Draw(t, label+"_reserved_word")
	}
	return s
}

var stringRunes = []rune("abcxyzABC019 \t  #{}:=->,()*./$'\\|;<>!?@%^&+~[]`éλ中e\u0301\u212b\u1100\u1161")

// StringText draws the text of a quoted string: anything but '"' and line ends.
func StringText(t *rapid.T, label string) string {
	max := 10
	if rapid.IntRange(0, 19).Draw(t, label+"_long") == 0 {
		max = 90 // sizes are not narrowed: long paths and globs exist
	}
	out := rapid.SliceOfN(rapid.SampledFrom(stringRunes), 0, max).Draw(t, label)
	return string(widen(t, label, out))
}

// widen replaces, once in a while, one rune by a letter or sign from far outside ASCII.
func widen(t *rapid.T, label string, r []rune) []rune {
	if len(r) == 0 || rapid.IntRange(0, 7).Draw(t, label+"_wide") != 0 {
		return r
	}
	pos := rapid.IntRange(0, len(r)-1).Draw(t, label+"_wide_pos")
	if rapid.Bool().Draw(t, label+"_wide_sign") {
		r[pos] = rapid.SampledFrom(WideRunes).Draw(t, label+"_wide_rune")
	} else {
		r[pos] = WideLetter(t, label+"_wide_letter")
	}
	return r
}

var commentRunes = []rune("abcxyzABC019     \t#{}:=->,()\"*./$'éλ中task%%")

// CommentText draws the text after '#': anything without line ends, possibly empty or blank.
// decorative comments: rules, boxes, shebang lines, with and without a blank after the '#'
var decorComments = []string{"--------", " --------", "=====", " ===== ", "***", "~~~~", "___", "-=-=-=-", "!/usr/bin/env spok", "!/bin/sh", "##", "#-#-#", " - "}

func CommentText(t *rapid.T, label string) string {
	if rapid.IntRange(0, 24).Draw(t, label+"_decor") == 0 {
		return rapid.SampledFrom(decorComments).Draw(t, label+"_decor_text")
	}
	switch rapid.IntRange(0, 9).Draw(t, label+"_kind") {
	case 0:
		return ""
	case 1:
		return " "
	case 2:
		return " \t "
	}
	max := 14
	if rapid.IntRange(0, 14).Draw(t, label+"_long") == 0 {
		max = 120
	}
	return string(widen(t, label, rapid.SliceOfN(rapid.SampledFrom(commentRunes), 1, max).Draw(t, label)))
}

var cmdFirst = []rune("abcdefghijklmnopqrstuvwxyzABCDEFGHIJKLMNOPQRSTUVWXYZ")
var cmdPieces = []string{
	"go", "test", "echo", "./...", "-v", "--flag=1", "a", "b", "x9", " ", "  ", "\t", " | ", " && ", " > ", "/", ".", "*", "$HOME", "\"q s\"", "'s'",
	"=", ":", ";", "(", ")", "[", "]", "\\", "!", "?", "@", "%", "^", "+", "~", ",", "<", "_", "-", "0", "{{.NAME}}", "{{.X}}", "{{.é}}"[:0] + "{{.Y_Z}}",
}

// Command draws a command line over the admissible command alphabet: it starts with an
// ASCII letter, is ASCII only, has no '#', no '{' or '}' outside a well-formed {{.NAME}}
// reference, and neither starts nor ends with a blank.
var wholeCmds = []string{"task build", "task", "tasks --list", "taskfile run x", "go test ./...", "make -j4", "echo 100%", "printf a\\ \\  b", "x", "printf 'working\rdone'"}

func Command(t *rapid.T, label string) string {
	if rapid.IntRange(0, 9).Draw(t, label+"_whole") == 0 {
		return rapid.SampledFrom(wholeCmds).Draw(t, label+"_wholecmd")
	}
	var b strings.Builder
	b.WriteRune(rapid.SampledFrom(cmdFirst).Draw(t, label+"_first"))
	n := rapid.IntRange(0, 6).Draw(t, label+"_n")
	for i := 0; i < n; i++ {
		b.WriteString(rapid.SampledFrom(cmdPieces).Draw(t, label+"_piece"))
	}
	s := strings.TrimRight(b.String(), " \t")
	return s
}

// ArgList draws 0..max dependencies / outputs / arguments of either kind.
func ArgList(t *rapid.T, label string, max int) []Arg {
	if rapid.IntRange(0, 24).Draw(t, label+"_many") == 0 {
		max *= 4
	}
	n := rapid.IntRange(0, max).Draw(t, label+"_n")
	out := make([]Arg, 0, n)
	for i := 0; i < n; i++ {
		if rapid.Bool().Draw(t, label+"_isstr") {
			out = append(out, Arg{Str: true, Text: StringText(t, label+"_s")})
		} else {
			out = append(out, Arg{Str: false, Text: Ident(t, label+"_id")})
		}
	}
	return out
}

var fnNames = []string{"join", "exec", "exec", "join", "other"}

// Program draws an abstract spokfile of 0..6 statements (already Normalized).
func Program(t *rapid.T) []Stmt {
	n := rapid.IntRange(0, 6).Draw(t, "nstmts")
	out := make([]Stmt, 0, n)
	for i := 0; i < n; i++ {
		switch rapid.IntRange(0, 9).Draw(t, "stmtkind") {
		case 0, 1, 2:
			out = append(out, Stmt{Kind: "comment", Text: CommentText(t, "comment")})
		case 3, 4:
			out = append(out, Stmt{Kind: "assign", Name: Ident(t, "var"), ValKind: "string", ValText: StringText(t, "val")})
		case 5:
			out = append(out, Stmt{Kind: "assign", Name: Ident(t, "var"), ValKind: "func", ValText: rapid.SampledFrom(fnNames).Draw(t, "fn"), Args: ArgList(t, "fnargs", 4)})
		default:
			s := Stmt{Kind: "task", Name: Ident(t, "task")}
			if rapid.Bool().Draw(t, "hasdoc") {
				s.HasDoc, s.Doc = true, CommentText(t, "doc")
			}
			s.Deps = ArgList(t, "deps", 4)
			if rapid.Bool().Draw(t, "hasouts") {
				s.Outs = ArgList(t, "outs", 4)
			}
			nc := rapid.IntRange(0, 5).Draw(t, "ncmds")
			for j := 0; j < nc; j++ {
				s.Cmds = append(s.Cmds, Command(t, "cmd"))
			}
			out = append(out, s)
		}
	}
	return Normalize(out)
}
