// Package gen holds the generators and the abstract spokfile model shared by the engines.
package gen

import (
	"fmt"
	"strings"

	"github.com/FollowTheProcess/spok/ast"
)

// Arg is a dependency, output or function argument: a quoted string or an identifier.
type Arg struct {
	Str  bool   `json:"str"`
	Text string `json:"text"`
}

// Stmt is one top-level statement of an abstract spokfile.
type Stmt struct {
	Kind string `json:"kind"` // "comment", "assign", "task"
	Text string `json:"text,omitempty"`
	Name string `json:"name,omitempty"`
	// assign
	ValKind string `json:"val_kind,omitempty"` // "string", "func", "ident"
	ValText string `json:"val_text,omitempty"` // string text / function name / ident
	Args    []Arg  `json:"args,omitempty"`
	// task
	HasDoc bool     `json:"has_doc,omitempty"`
	Doc    string   `json:"doc,omitempty"`
	Deps   []Arg    `json:"deps,omitempty"`
	Outs   []Arg    `json:"outs,omitempty"`
	Cmds   []string `json:"cmds,omitempty"`
}

func projArgs(nodes []ast.Node) []Arg {
	out := make([]Arg, 0, len(nodes))
	for _, n := range nodes {
		switch v := n.(type) {
		case ast.String:
			out = append(out, Arg{Str: true, Text: v.Text})
		case ast.Ident:
			out = append(out, Arg{Str: false, Text: v.Name})
		default:
			out = append(out, Arg{Str: false, Text: fmt.Sprintf("<%T %s>", n, n.String())})
		}
	}
	return out
}

// Project turns a parsed tree into the abstract model, without any normalisation.
func Project(tree ast.Tree) []Stmt {
	out := make([]Stmt, 0, len(tree.Nodes))
	for _, n := range tree.Nodes {
		switch v := n.(type) {
		case ast.Comment:
			out = append(out, Stmt{Kind: "comment", Text: v.Text})
		case ast.Assign:
			s := Stmt{Kind: "assign", Name: v.Name.Name}
			switch val := v.Value.(type) {
			case ast.String:
				s.ValKind, s.ValText = "string", val.Text
			case ast.Ident:
				s.ValKind, s.ValText = "ident", val.Name
			case ast.Function:
				s.ValKind, s.ValText = "func", val.Name.Name
				s.Args = projArgs(val.Arguments)
			default:
				s.ValKind, s.ValText = "other", fmt.Sprintf("%T", v.Value)
			}
			out = append(out, s)
		case ast.Task:
			s := Stmt{Kind: "task", Name: v.Name.Name, Doc: v.Docstring.Text, HasDoc: v.Docstring.Text != ""}
			s.Deps = projArgs(v.Dependencies)
			s.Outs = projArgs(v.Outputs)
			for _, c := range v.Commands {
				s.Cmds = append(s.Cmds, c.Command)
			}
			out = append(out, s)
		default:
			out = append(out, Stmt{Kind: fmt.Sprintf("other:%T", n)})
		}
	}
	return out
}

// Canon prepares a statement list for structural comparison (C06): comment and docstring
// texts are blank-trimmed, comments whose trimmed text is empty are dropped and an empty
// docstring equals no docstring.
func Canon(in []Stmt) []Stmt {
	out := make([]Stmt, 0, len(in))
	for _, s := range in {
		switch s.Kind {
		case "comment":
			s.Text = strings.TrimSpace(s.Text)
			if s.Text == "" {
				continue
			}
		case "task":
			s.Doc = strings.TrimSpace(s.Doc)
			s.HasDoc = s.Doc != ""
		}
		out = append(out, s)
	}
	return out
}

func argsEqual(a, b []Arg) bool {
	if len(a) != len(b) {
		return false
	}
	for i := range a {
		if a[i] != b[i] {
			return false
		}
	}
	return true
}

func strsEqual(a, b []string) bool {
	if len(a) != len(b) {
		return false
	}
	for i := range a {
		if a[i] != b[i] {
			return false
		}
	}
	return true
}

// StmtEqual compares two canonical statements.
func StmtEqual(a, b Stmt) bool {
	return a.Kind == b.Kind && a.Text == b.Text && a.Name == b.Name && a.ValKind == b.ValKind && a.ValText == b.ValText &&
		argsEqual(a.Args, b.Args) && a.HasDoc == b.HasDoc && a.Doc == b.Doc && argsEqual(a.Deps, b.Deps) &&
		argsEqual(a.Outs, b.Outs) && strsEqual(a.Cmds, b.Cmds)
}

// Diff returns "" when two canonical lists are equal, else a description of the first difference.
func Diff(got, want []Stmt) string {
	for i := 0; i < len(got) || i < len(want); i++ {
		switch {
		case i >= len(got):
			return fmt.Sprintf("statement %d missing: want %+v", i, want[i])
		case i >= len(want):
			return fmt.Sprintf("extra statement %d: got %+v", i, got[i])
		case !StmtEqual(got[i], want[i]):
			return fmt.Sprintf("statement %d differs:\n got  %+v\n want %+v", i, got[i], want[i])
		}
	}
	return ""
}

// Semantic is the projection used by C07: what a spokfile *does*. Comments and docstrings
// are left out; command texts are compared verbatim.
func Semantic(in []Stmt) []Stmt {
	out := make([]Stmt, 0, len(in))
	for _, s := range in {
		switch s.Kind {
		case "comment":
			continue
		case "task":
			s.Doc, s.HasDoc = "", false
			// command lines are compared verbatim: even a trailing blank can matter to the shell
			// (an escaped space at the end of a line)
			s.Cmds = append([]string(nil), s.Cmds...)
		}
		out = append(out, s)
	}
	return out
}

// Comments is the projection used by C15: every non-empty comment in order with its
// trimmed text, a marker for every assignment, and every task with its trimmed docstring.
func Comments(in []Stmt) []string {
	var out []string
	for _, s := range in {
		switch s.Kind {
		case "comment":
			if t := strings.TrimSpace(s.Text); t != "" {
				out = append(out, "C:"+t)
			}
		case "assign":
			out = append(out, "A:"+s.Name)
		case "task":
			out = append(out, "T:"+s.Name+":"+strings.TrimSpace(s.Doc))
		}
	}
	return out
}
