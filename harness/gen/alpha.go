package gen

// Alphabet is the 25-symbol alphabet of lexer-relevant character classes. Every string
// over it up to a length bound is enumerated by index (bounded-exhaustive input space).
var Alphabet = []string{
	"task", " ", "\t", "\n", "\r\n", "\r", "#", ":=", ":", "->", "(", ")", "{", "}", ",", "\"", "{{", "}}",
	"a", "é", "_", "1", ".", "$", "\x80",
}

// AlphaTotal is the number of strings of length 0..maxLen over the alphabet.
func AlphaTotal(maxLen int) uint64 {
	var total, p uint64 = 0, 1
	for l := 0; l <= maxLen; l++ {
		total += p
		p *= uint64(len(Alphabet))
	}
	return total
}

// AlphaString decodes index idx (shorter strings first) into its symbol string.
// buf is reused between calls.
func AlphaString(idx uint64, buf []byte) []byte {
	k := uint64(len(Alphabet))
	l, p := 0, uint64(1)
	for idx >= p {
		idx -= p
		p *= k
		l++
	}
	buf = buf[:0]
	// most significant symbol first
	var digits [16]int
	for i := l - 1; i >= 0; i-- {
		digits[i] = int(idx % k)
		idx /= k
	}
	for i := 0; i < l; i++ {
		buf = append(buf, Alphabet[digits[i]]...)
	}
	return buf
}
