package gen

import "strings"

// Chooser supplies layout decisions: rapid draws for random layouts, an odometer for
// the exhaustive enumeration of layouts.
type Chooser interface {
	Choose(label string, n int) int // in [0,n)
	Small() bool                    // true: option lists are cut down to keep products enumerable
}

// Odometer enumerates every sequence of choices in depth-first order.
type Odometer struct {
	digits []int
	limits []int
	pos    int
	small  bool
}

// NewOdometer makes an enumerating chooser.
func NewOdometer() *Odometer { return &Odometer{small: true} }

// Small implements Chooser.
func (o *Odometer) Small() bool { return o.small }

// Choose implements Chooser.
func (o *Odometer) Choose(_ string, n int) int {
	if n <= 1 {
		return 0
	}
	if o.pos == len(o.digits) {
		o.digits = append(o.digits, 0)
		o.limits = append(o.limits, n)
	}
	o.limits[o.pos] = n
	d := o.digits[o.pos]
	if d >= n {
		d = n - 1
	}
	o.pos++
	return d
}

// Next advances to the next choice sequence; false when the space is exhausted.
func (o *Odometer) Next() bool {
	// only the digits consumed in the last run are meaningful
	o.digits = o.digits[:o.pos]
	o.limits = o.limits[:o.pos]
	for i := len(o.digits) - 1; i >= 0; i-- {
		if o.digits[i]+1 < o.limits[i] {
			o.digits[i]++
			o.digits = o.digits[:i+1]
			o.limits = o.limits[:i+1]
			o.pos = 0
			return true
		}
	}
	return false
}

// Fixed always takes option 0 (the canonical layout).
type Fixed struct{}

func (Fixed) Choose(string, int) int { return 0 }
func (Fixed) Small() bool            { return true }

type renderer struct {
	ch     Chooser
	b      strings.Builder
	nlMode int
}

func (r *renderer) nl() {
	switch r.nlMode {
	case 0:
		r.b.WriteString("\n")
	case 1:
		r.b.WriteString("\r\n")
	default:
		if r.ch.Choose("nl", 2) == 0 {
			r.b.WriteString("\n")
		} else {
			r.b.WriteString("\r\n")
		}
	}
}

// (the last three: spaces beyond ASCII, which the lexer — unicode.IsSpace — is observed to accept as spacing)
var wsOpts = []string{"", " ", "\t", "  ", " \t ", " ", "", "\u3000", "\u2003 ", "\u00a0"}
var wsOptsSmall = []string{"", " "}
var ws1Opts = []string{" ", "\t", "  ", "\t "}
var ws1OptsSmall = []string{" ", "\t"}
var indentOpts = []string{"", "    ", "\t", " ", "  \t", "    ", "\t", "\u3000\u3000", "\u2002"}
var indentOptsSmall = []string{"", "\t"}

func (r *renderer) pick(label string, full, small []string) string {
	o := full
	if r.ch.Small() {
		o = small
	}
	return o[r.ch.Choose(label, len(o))]
}

func (r *renderer) ws(label string) string  { return r.pick(label, wsOpts, wsOptsSmall) }
func (r *renderer) ws1(label string) string { return r.pick(label, ws1Opts, ws1OptsSmall) }
func (r *renderer) indent()                 { r.b.WriteString(r.pick("indent", indentOpts, indentOptsSmall)) }

// blank emits 0..2 blank (possibly whitespace-only) lines.
func (r *renderer) blank(label string) {
	max := 3
	if r.ch.Small() {
		max = 2
	}
	n := r.ch.Choose(label, max)
	for i := 0; i < n; i++ {
		if !r.ch.Small() && r.ch.Choose("blankws", 3) == 0 {
			r.b.WriteString(" \t")
		}
		r.nl()
	}
}

func (r *renderer) arg(a Arg) {
	if a.Str {
		r.b.WriteString(`"` + a.Text + `"`)
	} else {
		r.b.WriteString(a.Text)
	}
}

// list renders "(" items ")" with free spacing and an optional trailing comma.
func (r *renderer) list(args []Arg) {
	r.b.WriteString("(")
	r.b.WriteString(r.ws("lp"))
	for i, a := range args {
		r.arg(a)
		if i < len(args)-1 {
			r.b.WriteString(r.ws("bc"))
			r.b.WriteString(",")
			r.b.WriteString(r.ws("ac"))
		}
	}
	if len(args) > 0 && r.ch.Choose("trailcomma", 2) == 1 {
		r.b.WriteString(r.ws("bc"))
		r.b.WriteString(",")
	}
	r.b.WriteString(r.ws("rp"))
	r.b.WriteString(")")
}

func (r *renderer) body(cmds []string) {
	r.b.WriteString("{")
	if len(cmds) == 0 {
		switch r.ch.Choose("emptybody", 4) {
		case 1:
			r.b.WriteString(" ")
		case 2:
			r.nl()
			r.indent()
		case 3:
			r.b.WriteString(" ")
			r.nl()
			r.nl()
		}
		r.b.WriteString("}")
		return
	}
	firstOnBrace := r.ch.Choose("firstonbrace", 3) == 1
	lastOnClose := r.ch.Choose("lastonclose", 3) == 1
	for i, c := range cmds {
		switch {
		case i == 0 && firstOnBrace:
			r.b.WriteString([]string{" ", ""}[r.ch.Choose("bracegap", 2)])
		case i == 0:
			r.b.WriteString(r.ws("afterbrace"))
			r.nl()
			r.blank("bodyblank")
			r.indent()
		default:
			r.nl()
			r.blank("bodyblank")
			r.indent()
		}
		r.b.WriteString(c)
	}
	if lastOnClose {
		r.b.WriteString([]string{" ", ""}[r.ch.Choose("closegap", 2)])
	} else {
		r.nl()
		r.blank("bodyblank")
		r.indent()
	}
	r.b.WriteString("}")
}

// Render writes an abstract spokfile in a concrete layout. Only layout variations that the
// documentation / property statement promise are produced: indentation, blank lines, LF or
// CRLF, spacing around punctuation, trailing commas, bare or parenthesised single outputs,
// one-line or multi-line bodies. stmts must be Normalized.
func Render(ch Chooser, stmts []Stmt) string { return render(ch, stmts, false) }

// RenderJoined is Render for the input-level properties (which quantify over whatever parses, not
// over the documented layouts): now and then the next statement starts on the line the previous one
// ended on.
func RenderJoined(ch Chooser, stmts []Stmt) string { return render(ch, stmts, true) }

func render(ch Chooser, stmts []Stmt, join bool) string {
	r := &renderer{ch: ch}
	if ch.Small() {
		r.nlMode = ch.Choose("nlmode", 2) // LF or CRLF; mixed line ends are left to the random layouts
	} else {
		r.nlMode = ch.Choose("nlmode", 3)
	}
	r.blank("startblank")
	for i, s := range stmts {
		switch s.Kind {
		case "comment":
			r.indent()
			r.b.WriteString("#" + s.Text)
		case "assign":
			r.indent()
			r.b.WriteString(s.Name)
			r.b.WriteString(r.ws("bd"))
			r.b.WriteString(":=")
			r.b.WriteString(r.ws("ad"))
			switch s.ValKind {
			case "string":
				r.b.WriteString(`"` + s.ValText + `"`)
			case "func":
				r.b.WriteString(s.ValText)
				if !ch.Small() && ch.Choose("fnsp", 4) == 0 {
					r.b.WriteString(" ")
				}
				r.list(s.Args)
				if !ch.Small() {
					r.b.WriteString(r.ws("afterfn"))
				}
			}
		case "task":
			if s.HasDoc {
				r.indent()
				r.b.WriteString("#" + s.Doc)
				r.nl()
			}
			r.indent()
			r.b.WriteString("task")
			r.b.WriteString(r.ws1("tasksp"))
			r.b.WriteString(s.Name)
			r.b.WriteString(r.ws("beforelp"))
			r.list(s.Deps)
			r.b.WriteString(r.ws("afterdeps"))
			if len(s.Outs) > 0 {
				r.b.WriteString("->")
				r.b.WriteString(r.ws("afterarrow"))
				if len(s.Outs) == 1 && ch.Choose("bareout", 2) == 0 {
					r.arg(s.Outs[0])
				} else {
					r.list(s.Outs)
				}
				r.b.WriteString(r.ws("afterouts"))
			}
			r.body(s.Cmds)
			if !ch.Small() {
				r.b.WriteString(r.ws("afterbody"))
			}
		}
		if i == len(stmts)-1 {
			switch ch.Choose("eof", 3) {
			case 1:
				r.nl()
			case 2:
				r.nl()
				r.blank("endblank")
			}
		} else if join && s.Kind != "comment" && ch.Choose("joinline", 3) == 0 {
			r.b.WriteString(" ") // (a comment runs to the end of its line, nothing can follow it there)
		} else {
			r.nl()
			// a docstring must stay attached to its task, any other pair may be separated
			r.blank("between")
		}
	}
	return r.b.String()
}

// Normalize makes an abstract statement list well-formed for rendering: a comment that
// directly precedes a task without docstring *is* that task's docstring (the documented rule).
func Normalize(in []Stmt) []Stmt {
	out := make([]Stmt, 0, len(in))
	for _, s := range in {
		if s.Kind == "task" && !s.HasDoc && len(out) > 0 && out[len(out)-1].Kind == "comment" {
			s.HasDoc, s.Doc = true, out[len(out)-1].Text
			out = out[:len(out)-1]
		}
		out = append(out, s)
	}
	return out
}
