// Command vcheck is the generic driver behind /verif/check.
//
//	vcheck <id> quick|thorough
//	vcheck <id> --replay <file>
//
// It rebuilds the engine that serves <id> against /repo's current working tree (tag
// "verif"), asks the engine for its plan (a list of shard processes), runs the shards with
// bounded parallelism, attributes crashes and stalls to the case in flight through a
// shared-memory progress area, merges the shards' partial evidence into
// /verif/evidence/<id>.json and prints VIOLATION / KNOWN-FINDING lines.
//
// Exit status: 0 property held on everything explored; 1 violation; 2 inconclusive.
package main

import (
	"bytes"
	"context"
	"encoding/base64"
	"encoding/binary"
	"encoding/json"
	"errors"
	"fmt"
	"os"
	"os/exec"
	"path/filepath"
	"runtime"
	"sort"
	"strconv"
	"strings"
	"sync"
	"syscall"
	"time"

	"verif/ev"
)

var engines = map[string]string{
	"C06": "syntax", "C07": "syntax", "C08": "syntax", "C11": "syntax", "C15": "syntax", "C16": "syntax",
	"C01": "runinproc", "C02": "runinproc", "C03": "runinproc", "C05": "runinproc", "C14": "runinproc",
	"C04": "hashing", "C18": "hashing",
	"C09": "cli", "C10": "cli", "C12": "cli", "C13": "cli", "C17": "cli", "C19": "cli", "C20": "cli",
}

// additional engines that contribute shards to a property's check (their TestPlan is asked too)
var extraEngines = map[string][]string{
	"C07": {"cli"}, "C11": {"cli"}, "C15": {"cli"}, "C14": {"cli"}, "C05": {"cli"}, "C03": {"cli"}, "C08": {"cli"}, "C01": {"cli"}, "C02": {"cli"}, "C18": {"cli"}, "C06": {"cli"}, "C04": {"cli"},
}

// engines whose checks run the spok binary
var needsBinary = map[string]bool{"cli": true}

const progressSize = 1<<20 + 16

type ctx struct {
	id, tier    string
	seed        int64
	root, repo  string
	harness     string
	build, work string
	engine      string
	start       time.Time

	altMod        string
	regressTotal  int
	regressFailed []string
}

func inconclusive(format string, a ...any) {
	fmt.Printf("INCONCLUSIVE: "+format+"\n", a...)
	os.Exit(2)
}

func main() {
	if len(os.Args) < 3 {
		fmt.Fprintln(os.Stderr, "usage: vcheck <id> quick|thorough | vcheck <id> --replay <file>")
		os.Exit(2)
	}
	c := &ctx{id: os.Args[1], start: time.Now()}
	c.root = envOr("VERIF_ROOT", "/verif")
	c.repo = envOr("VERIF_REPO", "/repo")
	c.harness = filepath.Join(c.root, "harness")
	eng, ok := engines[c.id]
	if !ok {
		fmt.Fprintf(os.Stderr, "unknown property %q\n", c.id)
		os.Exit(2)
	}
	c.engine = eng
	c.seed = 20240229
	if n, err := strconv.ParseInt(os.Getenv("VERIF_SEED"), 10, 64); err == nil && n != 0 {
		c.seed = n
	}
	c.build = filepath.Join(c.root, ".build", c.id)
	if c.repo != "/repo" {
		// checks against another checkout of the repository (scratch worktrees, snapshots) get
		// their own build directory and an alternate go.mod whose replace directive points there
		c.build = filepath.Join(c.root, ".build", c.id+"-"+sanitize(c.repo))
	}
	if v := os.Getenv("VERIF_BUILD"); v != "" {
		c.build = v
	}
	must(os.MkdirAll(c.build, 0o755))
	if c.repo != "/repo" {
		must(c.writeAltMod())
	}
	// scratch space: memory-backed when available (the engines are dominated by small file operations)
	base := os.Getenv("VERIF_TMP")
	if base == "" {
		if st, err := os.Stat("/dev/shm"); err == nil && st.IsDir() {
			if f, err := os.CreateTemp("/dev/shm", "verif-probe-"); err == nil {
				f.Close()
				os.Remove(f.Name())
				base = "/dev/shm"
			}
		}
	}
	work, err := os.MkdirTemp(base, "verif-"+c.id+"-")
	must(err)
	must(os.Chmod(work, 0o711))
	c.work = work
	code := 2
	func() {
		defer os.RemoveAll(work)
		if os.Args[2] == "--replay" {
			if len(os.Args) < 4 {
				fmt.Fprintln(os.Stderr, "missing replay file")
				return
			}
			c.tier = "quick"
			code = c.replay(os.Args[3])
			return
		}
		c.tier = os.Args[2]
		if c.tier != "quick" && c.tier != "thorough" {
			fmt.Fprintln(os.Stderr, "tier must be quick or thorough")
			return
		}
		code = c.run()
	}()
	os.Exit(code)
}

func envOr(k, d string) string {
	if v := os.Getenv(k); v != "" {
		return v
	}
	return d
}

func must(err error) {
	if err != nil {
		fmt.Fprintln(os.Stderr, "vcheck:", err)
		os.Exit(2)
	}
}

// writeAltMod writes <build>/go.alt.mod (+ .sum): the harness module with its replace directive
// pointing at c.repo instead of /repo.
func (c *ctx) writeAltMod() error {
	data, err := os.ReadFile(filepath.Join(c.harness, "go.mod"))
	if err != nil {
		return err
	}
	alt := strings.Replace(string(data), "=> /repo", "=> "+c.repo, 1)
	c.altMod = filepath.Join(c.build, "go.alt.mod")
	if err := os.WriteFile(c.altMod, []byte(alt), 0o644); err != nil {
		return err
	}
	sum, err := os.ReadFile(filepath.Join(c.harness, "go.sum"))
	if err != nil {
		return err
	}
	return os.WriteFile(filepath.Join(c.build, "go.alt.sum"), sum, 0o644)
}

func (c *ctx) goEnv(mod string) []string {
	env := os.Environ()
	env = append(env, "GOFLAGS=-mod="+mod, "GOPROXY=off", "GOSUMDB=off", "GOTOOLCHAIN=local", "CGO_ENABLED=1")
	return env
}

// buildEngine compiles the engine test binary (optionally with -race).
func (c *ctx) buildEngine(race bool) (string, error) { return c.buildEngineOf(c.engine, race) }

func (c *ctx) buildEngineOf(engine string, race bool) (string, error) {
	out := filepath.Join(c.build, engine+".test")
	args := []string{"test", "-c", "-tags", "verif", "-o", out}
	if race {
		out = filepath.Join(c.build, engine+"-race.test")
		args = []string{"test", "-c", "-race", "-tags", "verif", "-o", out}
	}
	if c.altMod != "" {
		args = append(args, "-modfile="+c.altMod)
	}
	args = append(args, "./"+engine)
	cmd := exec.Command("go", args...)
	cmd.Dir = c.harness
	cmd.Env = c.goEnv("mod")
	if b, err := cmd.CombinedOutput(); err != nil {
		return "", fmt.Errorf("building engine %s: %v\n%s", engine, err, b)
	}
	return out, nil
}

// buildBinary compiles spok itself from the current working tree of /repo.
func (c *ctx) buildBinary() (string, error) {
	out := filepath.Join(c.build, "spok")
	cmd := exec.Command("go", "build", "-tags", "verif", "-o", out, "./cmd/spok")
	cmd.Dir = c.repo
	cmd.Env = c.goEnv("readonly")
	if b, err := cmd.CombinedOutput(); err != nil {
		return "", fmt.Errorf("building spok: %v\n%s", err, b)
	}
	return out, nil
}

func (c *ctx) baseEnv(out string) []string {
	env := os.Environ()
	env = append(env,
		"VERIF_ID="+c.id, "VERIF_TIER="+c.tier, "VERIF_SEED="+strconv.FormatInt(c.seed, 10),
		"VERIF_ROOT="+c.root, "VERIF_REPO="+c.repo, "VERIF_OUT="+out, "VERIF_WORK="+c.work,
		"VERIF_SPOK="+filepath.Join(c.build, "spok"), "VERIF_NCPU="+strconv.Itoa(runtime.NumCPU()),
	)
	return env
}

type shardResult struct {
	spec     ev.ShardSpec
	partial  *ev.Partial
	hashes   []uint64
	exit     int
	timedOut bool
	abnormal bool
	log      string
	idx      uint64
	payload  []byte
	havePay  bool
	recent   []recentCase // most recent first
	elapsed  time.Duration
}

// runFuzz runs one native `go test -fuzz` campaign. It cannot be pinned to a seed; a saved
// crasher is converted into an ordinary replay case.
func (c *ctx) runFuzz(spec ev.ShardSpec) shardResult {
	res := shardResult{spec: spec}
	pkgDir := filepath.Join(c.harness, c.engineOf(spec))
	target := strings.Trim(spec.Test, "^$")
	crashDir := filepath.Join(pkgDir, "testdata", "fuzz", target)
	before := map[string]bool{}
	if ents, err := os.ReadDir(crashDir); err == nil {
		for _, e := range ents {
			before[e.Name()] = true
		}
	}
	fuzztime := "60s"
	if v, ok := spec.Env["VERIF_FUZZTIME"]; ok {
		fuzztime = v
	}
	timeout := time.Duration(spec.TimeoutS) * time.Second
	if timeout == 0 {
		timeout = 30 * time.Minute
	}
	cx, cancel := context.WithTimeout(context.Background(), timeout)
	defer cancel()
	args := []string{"test", "-tags", "verif", "-run", "^$", "-fuzz", spec.Test, "-fuzztime", fuzztime}
	if c.altMod != "" {
		args = append(args, "-modfile="+c.altMod)
	}
	args = append(args, "./"+c.engineOf(spec))
	cmd := exec.CommandContext(cx, "go", args...)
	cmd.Dir = c.harness
	env := append(c.goEnv("mod"), "VERIF_ID="+c.id, "VERIF_TIER="+c.tier, "VERIF_ROOT="+c.root, "VERIF_REPO="+c.repo)
	for k, v := range spec.Env {
		env = append(env, k+"="+v)
	}
	cmd.Env = env
	cmd.SysProcAttr = &syscall.SysProcAttr{Setpgid: true}
	cmd.Cancel = func() error { return syscall.Kill(-cmd.Process.Pid, syscall.SIGKILL) }
	var buf bytes.Buffer
	cmd.Stdout, cmd.Stderr = &buf, &buf
	err := cmd.Run()
	res.log = buf.String()
	p := &ev.Partial{Property: c.id, Shard: spec.Name, Tier: c.tier, Classes: map[string]int64{}, Completed: true, Extra: map[string]any{}}
	// "fuzz: elapsed: 1m0s, execs: 1234567 (20000/sec), new interesting: 12 (total: 40)"
	for _, line := range strings.Split(res.log, "\n") {
		if i := strings.Index(line, "execs: "); i >= 0 {
			var n int64
			fmt.Sscanf(line[i+len("execs: "):], "%d", &n)
			if n > p.Evaluations {
				p.Evaluations = n
			}
		}
	}
	p.Classes["native_fuzz_execs_"+target] = p.Evaluations
	if cx.Err() != nil {
		res.timedOut = true
		p.Completed = false
	}
	if err != nil && cx.Err() == nil {
		// a crasher was written to testdata/fuzz/<target>/
		found := false
		if ents, derr := os.ReadDir(crashDir); derr == nil {
			for _, e := range ents {
				if before[e.Name()] {
					continue
				}
				data, rerr := os.ReadFile(filepath.Join(crashDir, e.Name()))
				if rerr != nil {
					continue
				}
				if in, ok := parseFuzzCorpus(string(data)); ok {
					found = true
					cs, _ := json.Marshal(map[string]string{"input_b64": base64.StdEncoding.EncodeToString(in), "input_text": strconv.QuoteToASCII(string(in))})
					p.Violations = append(p.Violations, ev.Violation{Property: c.id, Kind: "input", Sig: "native-fuzz-crasher", Size: len(in),
						Msg: "native fuzzing found a failing input; go test output:\n" + tail(res.log, 1500), Case: cs})
				}
				_ = os.Remove(filepath.Join(crashDir, e.Name()))
			}
		}
		if !found {
			p.Completed = false
			res.exit = 2
		} else {
			res.exit = 1
		}
	}
	res.partial = p
	normal := p.Completed && !res.timedOut && (res.exit == 0 || (res.exit == 1 && len(p.Violations) > 0))
	res.abnormal = !normal
	if res.abnormal {
		_ = os.MkdirAll(filepath.Join(c.root, ".logs"), 0o755)
		_ = os.WriteFile(filepath.Join(c.root, ".logs", fmt.Sprintf("%s-%s-%s.log", c.id, c.tier, spec.Name)), []byte(tail(res.log, 200000)), 0o644)
	}
	return res
}

// parseFuzzCorpus decodes a "go test fuzz v1" corpus file with a single []byte or string value.
func parseFuzzCorpus(s string) ([]byte, bool) {
	lines := strings.Split(strings.TrimSpace(s), "\n")
	if len(lines) < 2 || !strings.HasPrefix(lines[0], "go test fuzz v1") {
		return nil, false
	}
	l := strings.TrimSpace(lines[1])
	for _, pre := range []string{"[]byte(", "string("} {
		if strings.HasPrefix(l, pre) && strings.HasSuffix(l, ")") {
			q := l[len(pre) : len(l)-1]
			if v, err := strconv.Unquote(q); err == nil {
				return []byte(v), true
			}
		}
	}
	return nil, false
}

func (c *ctx) runShard(bin string, spec ev.ShardSpec, n int) shardResult {
	if spec.Fuzz {
		return c.runFuzz(spec)
	}
	res := shardResult{spec: spec}
	out := filepath.Join(c.work, fmt.Sprintf("shard-%04d", n))
	_ = os.MkdirAll(out, 0o755)
	prog := filepath.Join(out, "progress")
	_ = os.WriteFile(prog, make([]byte, progressSize), 0o644)
	timeout := time.Duration(spec.TimeoutS) * time.Second
	if timeout == 0 {
		timeout = 8 * time.Minute
		if c.tier == "thorough" {
			timeout = 60 * time.Minute
		}
	}
	cx, cancel := context.WithTimeout(context.Background(), timeout)
	defer cancel()
	args := []string{"-test.run", spec.Test, "-test.timeout", "0", "-test.count", "1"}
	args = append(args, spec.Args...)
	wrap := append([]string(nil), spec.Wrap...)
	env := c.baseEnv(out)
	if spec.AsNobody {
		sp, _ := exec.LookPath("setpriv")
		own := filepath.Join(c.work, fmt.Sprintf("unpriv-%04d", n))
		_ = os.MkdirAll(own, 0o755)
		for _, p := range []string{out, prog, own} {
			_ = os.Chown(p, 65534, 65534)
		}
		env = append(env, "VERIF_WORK="+own, "HOME="+own, "TMPDIR="+own)
		wrap = append(wrap, sp, "--reuid=65534", "--regid=65534", "--clear-groups")
	}
	argv := append(append(wrap, bin), args...)
	cmd := exec.CommandContext(cx, argv[0], argv[1:]...)
	cmd.Dir = filepath.Join(c.harness, c.engineOf(spec))
	env = append(env, "VERIF_SHARD="+spec.Name, "VERIF_PROGRESS="+prog)
	if spec.Range {
		env = append(env, "VERIF_LO="+strconv.FormatUint(spec.Lo, 10), "VERIF_HI="+strconv.FormatUint(spec.Hi, 10))
	}
	for k, v := range spec.Env {
		env = append(env, k+"="+v)
	}
	cmd.Env = env
	cmd.SysProcAttr = &syscall.SysProcAttr{Setpgid: true}
	cmd.Cancel = func() error { return syscall.Kill(-cmd.Process.Pid, syscall.SIGKILL) }
	var buf bytes.Buffer
	cmd.Stdout, cmd.Stderr = &buf, &buf
	t0 := time.Now()
	err := cmd.Run()
	res.elapsed = time.Since(t0)
	res.log = buf.String()
	if cx.Err() != nil {
		res.timedOut = true
	}
	if err != nil {
		var ee *exec.ExitError
		if errors.As(err, &ee) {
			res.exit = ee.ExitCode()
		} else {
			res.exit = -2
		}
	}
	if data, err := os.ReadFile(filepath.Join(out, "ev.json")); err == nil {
		var p ev.Partial
		if json.Unmarshal(data, &p) == nil {
			res.partial = &p
		}
	}
	if data, err := os.ReadFile(filepath.Join(out, "nt.bin")); err == nil {
		res.hashes = make([]uint64, len(data)/8)
		for i := range res.hashes {
			res.hashes[i] = binary.LittleEndian.Uint64(data[8*i:])
		}
	}
	if data, err := os.ReadFile(prog); err == nil && len(data) >= 16 {
		slotSize := (len(data) - 16) / ev.ProgressSlots
		seq := binary.LittleEndian.Uint64(data[0:8])
		for k := uint64(0); k < ev.ProgressSlots && k < seq; k++ {
			slot := data[16+int((seq-1-k)%ev.ProgressSlots)*slotSize:][:slotSize]
			n := binary.LittleEndian.Uint32(slot[8:12])
			rc := recentCase{Idx: binary.LittleEndian.Uint64(slot[0:8])}
			if n != 0xffffffff && int(n) <= slotSize-12 {
				rc.Payload = append([]byte(nil), slot[12:12+n]...)
			}
			res.recent = append(res.recent, rc)
		}
		if len(res.recent) > 0 {
			res.idx, res.payload, res.havePay = res.recent[0].Idx, res.recent[0].Payload, true
		}
	}
	// A shard is normal when it wrote a completed partial and exited 0 (held) or 1 (violations recorded).
	normal := res.partial != nil && res.partial.Completed && !res.timedOut &&
		(res.exit == 0 || (res.exit == 1 && len(res.partial.Violations) > 0))
	res.abnormal = !normal
	// keep the log of abnormal shards for diagnosis
	if res.abnormal {
		_ = os.MkdirAll(filepath.Join(c.root, ".logs"), 0o755)
		_ = os.WriteFile(filepath.Join(c.root, ".logs", fmt.Sprintf("%s-%s-%s.log", c.id, c.tier, spec.Name)), []byte(tail(res.log, 200000)), 0o644)
	}
	_ = os.RemoveAll(out)
	return res
}

func tail(s string, n int) string {
	if len(s) <= n {
		return s
	}
	return s[len(s)-n:]
}

func (c *ctx) engineOf(spec ev.ShardSpec) string {
	if spec.Engine != "" {
		return spec.Engine
	}
	return c.engine
}

func (c *ctx) getPlan(bin, engine string) (*ev.Plan, error) {
	out := filepath.Join(c.work, "plan-"+engine)
	_ = os.MkdirAll(out, 0o755)
	cmd := exec.Command(bin, "-test.run", "^TestPlan$", "-test.count", "1")
	cmd.Dir = filepath.Join(c.harness, engine)
	cmd.Env = c.baseEnv(out)
	b, err := cmd.CombinedOutput()
	if err != nil {
		return nil, fmt.Errorf("plan: %v\n%s", err, b)
	}
	data, err := os.ReadFile(filepath.Join(out, "plan.json"))
	if err != nil {
		return nil, fmt.Errorf("plan: %v\n%s", err, b)
	}
	var p ev.Plan
	if err := json.Unmarshal(data, &p); err != nil {
		return nil, err
	}
	return &p, nil
}

type recentCase struct {
	Idx     uint64 `json:"idx"`
	Payload []byte `json:"payload"`
}

type crashRec struct {
	Recent   []recentCase `json:"recent,omitempty"`
	Shard    string       `json:"shard"`
	Idx      uint64       `json:"idx"`
	Payload  string       `json:"payload_b64,omitempty"`
	TimedOut bool         `json:"timed_out"`
	Exit     int          `json:"exit"`
	LogTail  string       `json:"log_tail"`
	Resumed  bool         `json:"resumed"` // a range shard that was continued behind the case in flight
}

func (c *ctx) run() int {
	bins := map[string]string{}     // engine -> test binary
	raceBins := map[string]string{} // engine -> -race test binary
	bin, err := c.buildEngine(false)
	if err != nil {
		inconclusive("%v", err)
	}
	bins[c.engine] = bin
	needBin := needsBinary[c.engine]
	for _, e := range extraEngines[c.id] {
		needBin = needBin || needsBinary[e]
	}
	if needBin {
		if _, err := c.buildBinary(); err != nil {
			inconclusive("%v", err)
		}
	}
	plan, err := c.getPlan(bin, c.engine)
	if err != nil {
		inconclusive("%v", err)
	}
	for i := range plan.Shards {
		plan.Shards[i].Engine = c.engine
	}
	for _, e := range extraEngines[c.id] {
		b, err := c.buildEngineOf(e, false)
		if err != nil {
			inconclusive("%v", err)
		}
		bins[e] = b
		extra, err := c.getPlan(b, e)
		if err != nil {
			inconclusive("%v", err)
		}
		for _, sh := range extra.Shards {
			sh.Engine = e
			plan.Shards = append(plan.Shards, sh)
		}
		if extra.Rule != "" {
			plan.Rule += " || " + extra.Rule
		}
	}
	// shards that must run as an unprivileged user need root (to drop from) and setpriv
	if _, err := exec.LookPath("setpriv"); err != nil || os.Geteuid() != 0 {
		kept := plan.Shards[:0]
		dropped := 0
		for _, sh := range plan.Shards {
			if sh.AsNobody {
				dropped++
				continue
			}
			kept = append(kept, sh)
		}
		plan.Shards = kept
		if dropped > 0 {
			plan.Assumptions = append(plan.Assumptions, fmt.Sprintf("%d shard(s) that run as an unprivileged user were left out (the check was not started as root, or setpriv is missing): permission errors were only exercised through the sandboxed binary", dropped))
		}
	}
	// replay tier: the saved minimal cases of earlier findings, without any generator
	regress, _ := filepath.Glob(filepath.Join(c.root, "regress", c.id, "*.json"))
	sort.Strings(regress)
	c.regressTotal = len(regress)
	for _, path := range regress {
		if code, out := c.replayFile(bins, path, 5*time.Minute); code != 0 {
			c.regressFailed = append(c.regressFailed, path)
			fmt.Printf("--- %s: saved regression case fails again: %s\n%s\n", c.id, path, tail(out, 2000))
		}
	}
	for _, s := range plan.Shards {
		if s.Race && raceBins[s.Engine] == "" {
			rb, err := c.buildEngineOf(s.Engine, true)
			if err != nil {
				inconclusive("%v", err)
			}
			raceBins[s.Engine] = rb
		}
	}
	par := plan.Parallel
	if par <= 0 {
		par = runtime.NumCPU()
	}
	if v := ev.EnvInt("VERIF_PAR", 0); v > 0 {
		par = int(v)
	}

	var (
		mu       sync.Mutex
		results  []shardResult
		crashes  []crashRec
		queue    = append([]ev.ShardSpec(nil), plan.Shards...)
		wg       sync.WaitGroup
		sem      = make(chan struct{}, par)
		counter  int
		stopping bool
	)
	var launch func(spec ev.ShardSpec)
	launch = func(spec ev.ShardSpec) {
		wg.Add(1)
		mu.Lock()
		counter++
		n := counter
		mu.Unlock()
		go func() {
			defer wg.Done()
			sem <- struct{}{}
			mu.Lock()
			stop := stopping
			mu.Unlock()
			if stop {
				<-sem
				return
			}
			b := bins[spec.Engine]
			if spec.Race {
				b = raceBins[spec.Engine]
			}
			r := c.runShard(b, spec, n)
			<-sem
			var resume *ev.ShardSpec
			mu.Lock()
			results = append(results, r)
			if r.partial != nil && len(r.partial.Violations) > 0 {
				// a violation: no point in starting further shards (those running finish)
				stopping = true
			}
			if r.abnormal {
				if plan.CrashIsViolation {
					// the crash itself is the finding: do not start further shards
					stopping = true
				}
				cr := crashRec{Shard: spec.Name, Idx: r.idx, TimedOut: r.timedOut, Exit: r.exit, LogTail: tail(r.log, 16000), Recent: r.recent}
				if r.havePay {
					cr.Payload = base64.StdEncoding.EncodeToString(r.payload)
				}
				// resume a range shard behind the index in flight
				if spec.Range && !plan.CrashIsViolation && r.idx >= spec.Lo && r.idx+1 <= spec.Hi && len(crashes) < 50 {
					cr.Resumed = true
					if r.idx+1 < spec.Hi {
						next := spec
						next.Lo = r.idx + 1
						next.Name = spec.Name + "+"
						resume = &next
					}
				}
				crashes = append(crashes, cr)
			}
			mu.Unlock()
			if resume != nil {
				launch(*resume) // still inside this worker, so wg cannot reach zero in between
			}
		}()
	}
	for _, s := range queue {
		if !s.Fuzz {
			launch(s)
		}
	}
	wg.Wait()
	// native fuzz campaigns use every core themselves: one at a time, after the rest
	for _, s := range queue {
		if s.Fuzz {
			launch(s)
			wg.Wait()
		}
	}
	return c.merge(plan, results, crashes, bins)
}

func (c *ctx) loadFindings() []ev.Finding {
	var ff ev.FindingsFile
	if data, err := os.ReadFile(filepath.Join(c.root, "known_findings.json")); err == nil {
		_ = json.Unmarshal(data, &ff)
	}
	return ff.Findings
}

func (c *ctx) merge(plan *ev.Plan, results []shardResult, crashes []crashRec, bins map[string]string) int {
	sort.Slice(results, func(i, j int) bool { return results[i].spec.Name < results[j].spec.Name })
	var (
		evals     int64
		classes   = map[string]int64{}
		excluded  = map[string]int64{}
		knownEx   = map[string]json.RawMessage{}
		samples   []any
		notes     []string
		extra     = map[string]any{}
		vios      []ev.Violation
		union     = map[uint64]struct{}{}
		completed = 0
	)
	for _, r := range results {
		if r.partial == nil {
			continue
		}
		p := r.partial
		if p.Completed {
			completed++
		}
		evals += p.Evaluations
		for k, v := range p.Classes {
			classes[k] += v
		}
		for k, v := range p.ExcludedKnown {
			excluded[k] += v
		}
		for k, v := range p.KnownExamples {
			if _, ok := knownEx[k]; !ok {
				knownEx[k] = v
			}
		}
		for k, v := range p.Extra {
			if _, ok := extra[k]; !ok {
				extra[k] = v
			} else if a, ok := extra[k].(float64); ok {
				if b, ok := v.(float64); ok && strings.HasPrefix(k, "sum_") {
					extra[k] = a + b
				}
			}
		}
		notes = append(notes, p.Notes...)
		for _, v := range p.Violations {
			v.Engine = r.spec.Engine
			vios = append(vios, v)
		}
		for _, h := range r.hashes {
			union[h] = struct{}{}
		}
	}
	// samples: round-robin over shard groups (enum / prog / soup / ...), at most 10
	groups := map[string][]any{}
	var gnames []string
	for _, r := range results {
		if r.partial == nil {
			continue
		}
		g := r.spec.Name
		if i := strings.LastIndex(g, "-"); i > 0 {
			g = g[:i]
		}
		if _, ok := groups[g]; !ok {
			gnames = append(gnames, g)
		}
		if len(groups[g]) < 40 {
			groups[g] = append(groups[g], r.partial.Samples...)
		}
	}
	sort.Strings(gnames)
	for i := 0; len(samples) < 10; i++ {
		added := false
		for _, g := range gnames {
			// spread over the group's samples rather than taking its first ones
			n := len(groups[g])
			if i < n && len(samples) < 10 {
				samples = append(samples, groups[g][(i*7+3)%n])
				added = true
			}
		}
		if !added {
			break
		}
	}
	notes = dedupe(notes)

	// crashes / stalls
	exit := 0
	var lines []string
	replayDir := filepath.Join(envOr("VERIF_REPLAYS", filepath.Join(c.root, "replays")), c.id)
	blocked, unrecovered := 0, 0
	confirmed := false
	for _, cr := range crashes {
		if !cr.Resumed {
			unrecovered++
		}
		if plan.CrashIsViolation {
			what := "crashed"
			if cr.TimedOut {
				what = "stalled (killed by the shard deadline)"
			}
			// confirm solo: the replay must die as well, otherwise the crash is not attributable;
			// one confirmed witness per run is enough (each confirmation may take the full replay deadline)
			if confirmed {
				notes = append(notes, fmt.Sprintf("shard %s also died abnormally (exit %d, timeout %v)", cr.Shard, cr.Exit, cr.TimedOut))
				continue
			}
			// the culprit is the case in flight or, when a goroutine of an earlier case died late, one of the few before it
			cands := cr.Recent
			if len(cands) == 0 {
				payload, _ := base64.StdEncoding.DecodeString(cr.Payload)
				cands = []recentCase{{Idx: cr.Idx, Payload: payload}}
			}
			found := false
			for ci, cand := range cands {
				cs := map[string]any{"idx": cand.Idx, "payload_b64": base64.StdEncoding.EncodeToString(cand.Payload), "payload_text": string(cand.Payload), "shard": cr.Shard, "timed_out": cr.TimedOut, "cases_before_the_crash": ci}
				data, _ := json.Marshal(cs)
				v := ev.Violation{Property: c.id, Engine: c.engine, Kind: plan.ReplayKindCrash, Sig: "process-" + strings.Fields(what)[0], Size: len(cand.Payload),
					Msg: fmt.Sprintf("worker process %s while executing this case (exit %d); log tail:\n%s", what, cr.Exit, tail(cr.LogTail, 1500)), Case: data}
				if c.confirmCrash(bins, v) {
					confirmed, found = true, true
					vios = append(vios, v)
					break
				}
				if cr.TimedOut {
					break // a stall is always the case in flight
				}
			}
			if !found && strings.Contains(cr.LogTail, "WARNING: DATA RACE") && len(cands) > 0 {
				// the race detector's report is the evidence: a race shows under some schedules only, so a
				// solo replay that stays quiet does not take it back. The case in flight is kept for the reader.
				cand := cands[0]
				cs := map[string]any{"idx": cand.Idx, "payload_b64": base64.StdEncoding.EncodeToString(cand.Payload), "payload_text": string(cand.Payload), "shard": cr.Shard, "note": "reported by the race detector; schedule-dependent"}
				data, _ := json.Marshal(cs)
				i := strings.Index(cr.LogTail, "WARNING: DATA RACE")
				vios = append(vios, ev.Violation{Property: c.id, Engine: c.engine, Kind: plan.ReplayKindCrash, Sig: "data-race", Size: len(cand.Payload),
					Msg: "the race detector reported a data race while this case (or one just before it) was executing:\n" + tail(cr.LogTail[i:], 3000), Case: data})
				confirmed, found = true, true
			}
			if !found {
				blocked++
				notes = append(notes, fmt.Sprintf("shard %s died abnormally (exit %d, timeout %v) but none of its last %d cases reproduces it alone", cr.Shard, cr.Exit, cr.TimedOut, len(cands)))
			}
		} else {
			blocked++
			notes = append(notes, fmt.Sprintf("shard %s died abnormally at index %d (exit %d, timeout %v): %s", cr.Shard, cr.Idx, cr.Exit, cr.TimedOut, tail(cr.LogTail, 300)))
		}
	}

	// violations: split known / new, keep the smallest per signature
	findings := c.loadFindings()
	knownSig := map[string]ev.Finding{}
	for _, f := range findings {
		if f.Status == "known" && f.Property == c.id {
			knownSig[f.Sig] = f
		}
	}
	sort.SliceStable(vios, func(i, j int) bool { return vios[i].Size < vios[j].Size })
	seenSig := map[string]bool{}
	nvio := 0
	harnessErr := 0
	for _, v := range vios {
		if v.Sig == "harness" {
			// the harness could not set a case up (I/O error, bad generator): never a finding
			harnessErr++
			notes = append(notes, "harness error: "+tail(v.Msg, 300))
			continue
		}
		if _, ok := knownSig[v.Sig]; ok && v.Sig != "" {
			excluded[v.Sig]++
			continue
		}
		key := v.Sig
		if key == "" {
			key = "?"
		}
		if seenSig[key] {
			continue
		}
		seenSig[key] = true
		nvio++
		_ = os.MkdirAll(replayDir, 0o755)
		name := fmt.Sprintf("%s-%s-%d-%d.json", c.tier, sanitize(key), c.seed, nvio)
		path := filepath.Join(replayDir, name)
		data, _ := json.MarshalIndent(v, "", " ")
		_ = os.WriteFile(path, data, 0o644)
		lines = append(lines, fmt.Sprintf("VIOLATION property=%s replay=%s", c.id, path))
		fmt.Printf("--- %s: %s\n%s\ncase: %s\n", c.id, v.Sig, v.Msg, tail(string(v.Case), 3000))
		exit = 1
	}
	for _, path := range c.regressFailed {
		lines = append(lines, fmt.Sprintf("VIOLATION property=%s replay=%s", c.id, path))
		nvio++
		exit = 1
	}
	for sig, n := range excluded {
		f := knownSig[sig]
		fmt.Printf("KNOWN-FINDING: property=%s %s — %s (%d cases excluded by construction)\n", c.id, sig, f.What, n)
	}
	for _, f := range findings {
		if f.Status == "known" && f.Property == c.id {
			if _, ok := excluded[f.Sig]; !ok {
				fmt.Printf("KNOWN-FINDING: property=%s %s — %s (not encountered in this run)\n", c.id, f.Sig, f.What)
			}
		}
	}

	if harnessErr > 0 && exit == 0 {
		exit = 2
	}
	incomplete := len(plan.Shards) - completed
	if exit == 0 && (evals == 0 || blocked > 20 || (unrecovered > 0 && blocked > 0)) {
		// shards died for reasons that could not be attributed to the property and their
		// share of the plan was not explored
		exit = 2
	}

	cov := map[string]any{
		"evaluations":         evals,
		"distinct_nontrivial": len(union),
		"rule":                plan.Rule,
		"samples":             samples,
		"classes":             classes,
		"excluded_known":      excluded,
		"shards_planned":      len(plan.Shards),
		"shards_completed":    completed,
		"blocked_by_crash":    blocked,
		"regression_replays":  c.regressTotal,
		"notes":               notes,
	}
	if plan.Exhaustive && incomplete <= 0 && exit == 0 {
		cov["exhaustive"] = true
	}
	if plan.Explanation != "" {
		cov["explanation"] = plan.Explanation
	}
	if len(knownEx) > 0 {
		cov["known_examples"] = knownEx
	}
	for k, v := range extra {
		if _, ok := cov[k]; !ok {
			cov[k] = v
		}
	}
	evidence := map[string]any{
		"property_id": c.id,
		"tier":        c.tier,
		"seed":        c.seed,
		"level":       plan.Level,
		"coverage":    cov,
		"assumptions": plan.Assumptions,
		"wall_s":      time.Since(c.start).Seconds(),
		"violations":  nvio,
	}
	data, _ := json.MarshalIndent(evidence, "", " ")
	evDir := envOr("VERIF_EVIDENCE", filepath.Join(c.root, "evidence")) // overridden when a check is run against a scratch checkout
	_ = os.MkdirAll(evDir, 0o755)
	_ = os.WriteFile(filepath.Join(evDir, c.id+".json"), append(data, '\n'), 0o644)

	fmt.Printf("%s %s: %d cases, %d distinct non-trivial, %d/%d shards completed, %.1fs\n", c.id, c.tier, evals, len(union), completed, len(plan.Shards), time.Since(c.start).Seconds())
	for _, l := range lines {
		fmt.Println(l)
	}
	if exit == 2 {
		fmt.Printf("INCONCLUSIVE: %d shard(s) died abnormally; see %s/.logs\n", blocked, c.root)
	}
	return exit
}

// confirmCrash replays a case reconstructed from the progress area; true when the replay
// also ends abnormally or reports a violation.
func (c *ctx) confirmCrash(bins map[string]string, v ev.Violation) bool {
	path := filepath.Join(c.work, "confirm.json")
	data, _ := json.Marshal(v)
	_ = os.WriteFile(path, data, 0o644)
	code, _ := c.replayFile(bins, path, 45*time.Second)
	return code != 0
}

func (c *ctx) replayFile(bins map[string]string, path string, timeout time.Duration) (int, string) {
	engine := c.engine
	unprivileged := false
	if data, err := os.ReadFile(path); err == nil {
		var v ev.Violation
		if json.Unmarshal(data, &v) == nil && v.Engine != "" {
			engine = v.Engine
		}
		// cases whose kind starts with "unpriv-" only mean something for a user without special rights
		unprivileged = strings.HasPrefix(v.Kind, "unpriv-")
	}
	bin, ok := bins[engine]
	if !ok {
		b, err := c.buildEngineOf(engine, false)
		if err != nil {
			return 2, err.Error()
		}
		bins[engine] = b
		bin = b
	}
	out := filepath.Join(c.work, "replay")
	_ = os.MkdirAll(out, 0o755)
	cx, cancel := context.WithTimeout(context.Background(), timeout)
	defer cancel()
	argv := []string{bin, "-test.run", "^TestReplay$", "-test.count", "1", "-test.v", "-test.timeout", "0"}
	env := append(c.baseEnv(out), "VERIF_REPLAY="+path)
	if sp, err := exec.LookPath("setpriv"); unprivileged && err == nil && os.Geteuid() == 0 {
		own := filepath.Join(c.work, "replay-unpriv")
		_ = os.MkdirAll(own, 0o755)
		_ = os.Chown(own, 65534, 65534)
		_ = os.Chown(out, 65534, 65534)
		if data, err := os.ReadFile(path); err == nil {
			// the replay file may sit where that user cannot read it
			cp := filepath.Join(own, "case.json")
			if os.WriteFile(cp, data, 0o644) == nil {
				env = append(env, "VERIF_REPLAY="+cp)
			}
		}
		env = append(env, "VERIF_WORK="+own, "HOME="+own, "TMPDIR="+own)
		argv = append([]string{sp, "--reuid=65534", "--regid=65534", "--clear-groups"}, argv...)
	}
	cmd := exec.CommandContext(cx, argv[0], argv[1:]...)
	cmd.Dir = filepath.Join(c.harness, engine)
	cmd.Env = env
	cmd.SysProcAttr = &syscall.SysProcAttr{Setpgid: true}
	cmd.Cancel = func() error { return syscall.Kill(-cmd.Process.Pid, syscall.SIGKILL) }
	b, err := cmd.CombinedOutput()
	if cx.Err() != nil {
		return 3, string(b) + "\n(replay timed out)"
	}
	if err != nil {
		var ee *exec.ExitError
		if errors.As(err, &ee) {
			return ee.ExitCode(), string(b)
		}
		return 2, string(b)
	}
	return 0, string(b)
}

func (c *ctx) replay(path string) int {
	abs, err := filepath.Abs(path)
	must(err)
	if _, err := os.Stat(abs); err != nil {
		fmt.Fprintf(os.Stderr, "replay file %s: %v\n", abs, err)
		return 2
	}
	bins := map[string]string{}
	if _, err := c.buildBinary(); err != nil && (needsBinary[c.engine] || len(extraEngines[c.id]) > 0) {
		inconclusive("%v", err)
	}
	code, out := c.replayFile(bins, abs, 5*time.Minute)
	fmt.Print(out)
	if code != 0 {
		fmt.Printf("VIOLATION property=%s replay=%s\n", c.id, abs)
		return 1
	}
	fmt.Printf("replay of %s: property %s holds on this case\n", abs, c.id)
	return 0
}

func sanitize(s string) string {
	var b strings.Builder
	for _, r := range s {
		if r >= 'a' && r <= 'z' || r >= 'A' && r <= 'Z' || r >= '0' && r <= '9' || r == '-' || r == '_' {
			b.WriteRune(r)
		} else {
			b.WriteByte('_')
		}
	}
	if b.Len() == 0 {
		return "x"
	}
	return b.String()
}

func dedupe(in []string) []string {
	seen := map[string]bool{}
	var out []string
	for _, s := range in {
		if !seen[s] {
			seen[s] = true
			out = append(out, s)
		}
	}
	if len(out) > 40 {
		out = out[:40]
	}
	return out
}
