package runinproc

import (
	"fmt"
	"os"
	"path/filepath"
	"sort"
	"strings"

	"github.com/FollowTheProcess/spok/file"
	"github.com/FollowTheProcess/spok/iostream"
	"github.com/FollowTheProcess/spok/parser"

	"verif/ev"
	"verif/model"
	"verif/rp"
)

// GlobCase is a directory tree and a set of patterns.
type GlobCase struct {
	// Dir names the directory holding the spokfile ("" = proj)
	Dir      string   `json:"dir,omitempty"`
	Paths    []string `json:"paths"` // files; a trailing '/' denotes an (empty) directory
	Patterns []string `json:"patterns"`
	// ViaChain: the pattern tasks are not requested themselves but reached through two levels
	// of task dependencies (top -> mid -> pattern tasks)
	ViaChain bool `json:"via_chain,omitempty"`
	// Links: relative path -> "file" or "dir". Each is a symbolic link to a file or to a directory
	// (holding a.x, .h.x and sub/b.x) kept outside the tree, so it is never dangling and never a cycle.
	// A linked file is a file; the files below a linked directory have relative paths like any other.
	Links map[string]string `json:"links,omitempty"`
	// Locked: directories of the tree whose mode is 000 while the patterns are expanded. For a user who
	// may not list them (anyone but root) they are directories without visible content; everything
	// beside and behind them is matched as usual.
	Locked []string `json:"locked,omitempty"`
}

// linkPool is used by the enumerated link cases.
var linkPool = [][2]string{{"lnk.x", "file"}, {"src/lf.x", "file"}, {"ld", "dir"}, {"src/ldd", "dir"}, {".hl", "dir"}}

var globPool = []string{
	"a.x", "z.x", "-first.x", ".hid.x", ".env", ".git/a.x", "src/a.x", "src/.h.x", "src/.d/a.x", "src/sub/b.x", "other.y", "emptyd/",
}

var globPatterns = []string{
	"*.x", "**/*.x", "src/*", "src/*.x", "*/*", "*/*.x", "**", "src/**", "**/a.x", "{src,lib}/*.x", "*.{x,y}", "s*/a.x",
	"**/sub/*", ".*", "*.none", "src/**/*.x", "**/.h.x", "*", "**/*", "src/*/*.x", "?.*", "**/.d/*",
	// escaped meta characters and character classes (the backslash is an ordinary character of a spok string)
	`\[d\]*.x`, `q\**.x`, `[a-c]*.x`, `*.[xy]`, `src/[!.]*`,
}

func patternTaskName(i int) string {
	return "p" + string(rune('a'+i/26)) + string(rune('a'+i%26))
}

// Source renders a spokfile with one task per pattern.
func (c GlobCase) Source() string {
	var b strings.Builder
	for i, p := range c.Patterns {
		n := patternTaskName(i)
		fmt.Fprintf(&b, "task %s(\"%s\") {\n    run %s 0\n}\n\n", n, p, n)
	}
	if c.ViaChain {
		var names []string
		for i := range c.Patterns {
			names = append(names, patternTaskName(i))
		}
		fmt.Fprintf(&b, "task mid(%s) {\n    run mid 0\n}\n\ntask top(mid) {\n    run top 0\n}\n", strings.Join(names, ", "))
	}
	return b.String()
}

func execGlob(s *ev.Shard, root string, c GlobCase) *rp.Fail {
	if c.Dir != "" {
		root = filepath.Join(filepath.Dir(root), c.Dir)
	}
	_ = os.RemoveAll(root)
	if err := os.MkdirAll(root, 0o755); err != nil {
		return &rp.Fail{Sig: "harness", Msg: err.Error()}
	}
	defer os.RemoveAll(root)
	for _, p := range c.Paths {
		if strings.HasSuffix(p, "/") {
			if err := os.MkdirAll(filepath.Join(root, filepath.FromSlash(p)), 0o755); err != nil {
				return &rp.Fail{Sig: "harness", Msg: err.Error()}
			}
			continue
		}
		if err := writeFile(root, p, "x"); err != nil {
			return &rp.Fail{Sig: "harness", Msg: err.Error()}
		}
	}
	ext := root + "_ext"
	_ = os.RemoveAll(ext)
	if len(c.Links) > 0 {
		defer os.RemoveAll(ext)
		names := make([]string, 0, len(c.Links))
		for n := range c.Links {
			names = append(names, n)
		}
		sort.Strings(names)
		for i, n := range names {
			target := filepath.Join(ext, fmt.Sprintf("t%d.x", i))
			if c.Links[n] == "dir" {
				target = filepath.Join(ext, fmt.Sprintf("d%d", i))
				for _, f := range []string{"a.x", ".h.x", "sub/b.x"} {
					if err := writeFile(target, f, "x"); err != nil {
						return &rp.Fail{Sig: "harness", Msg: err.Error()}
					}
				}
			} else if err := writeFile(ext, fmt.Sprintf("t%d.x", i), "x"); err != nil {
				return &rp.Fail{Sig: "harness", Msg: err.Error()}
			}
			lp := filepath.Join(root, filepath.FromSlash(n))
			if err := os.MkdirAll(filepath.Dir(lp), 0o755); err != nil {
				return &rp.Fail{Sig: "harness", Msg: err.Error()}
			}
			if err := os.Symlink(target, lp); err != nil {
				return &rp.Fail{Sig: "harness", Msg: err.Error()}
			}
		}
	}
	src := c.Source()
	if err := writeFile(root, "spokfile", src); err != nil {
		return &rp.Fail{Sig: "harness", Msg: err.Error()}
	}
	for _, d := range c.Locked {
		p := filepath.Join(root, filepath.FromSlash(d))
		if err := os.Chmod(p, 0); err != nil {
			return &rp.Fail{Sig: "harness", Msg: err.Error()}
		}
		defer os.Chmod(p, 0o755)
	}
	size := len(c.Paths)*4 + len(c.Patterns)
	var tasks []string
	for i := range c.Patterns {
		tasks = append(tasks, patternTaskName(i))
	}
	if c.ViaChain {
		tasks = []string{"top"}
	}
	var first map[string][]string
	for round := 0; round < 2; round++ {
		entries, err := model.Walk(root)
		if err != nil {
			return &rp.Fail{Sig: "harness", Msg: err.Error()}
		}
		tree, err := parser.New(src).Parse()
		if err != nil {
			return &rp.Fail{Sig: "harness", Msg: "generated spokfile does not parse: " + err.Error()}
		}
		sf, err := file.New(tree, root, nopLogger{})
		if err != nil {
			return &rp.Fail{Sig: "harness", Msg: "generated spokfile does not load: " + err.Error()}
		}
		rec := &recorder{count: map[string]int{}}
		if _, err := sf.Run(iostream.Null(), rec, true, tasks...); err != nil {
			return &rp.Fail{Sig: "expansion-error", Size: size, Msg: fmt.Sprintf("tree %v links %v: running the tasks that use the patterns failed: %v", c.Paths, c.Links, err)}
		}
		for i := range c.Patterns {
			if rec.count[patternTaskName(i)] == 0 {
				return &rp.Fail{Sig: "harness", Msg: "pattern task " + patternTaskName(i) + " did not run (C03's subject), cannot judge its glob"}
			}
		}
		got := map[string][]string{}
		for _, pat := range c.Patterns {
			var files []string
			seen := map[string]bool{}
			for _, abs := range sf.Globs[pat] {
				st, err := os.Stat(abs)
				if err != nil {
					return &rp.Fail{Sig: "expansion-names-missing-path", Size: size, Msg: fmt.Sprintf("tree %v links %v: pattern %q expanded to %q which does not exist", c.Paths, c.Links, pat, abs)}
				}
				if st.IsDir() {
					continue
				}
				rel, err := filepath.Rel(root, abs)
				if err != nil || strings.HasPrefix(rel, "..") {
					return &rp.Fail{Sig: "expansion-outside-root", Size: size, Msg: fmt.Sprintf("tree %v links %v: pattern %q expanded to %q outside the spokfile directory", c.Paths, c.Links, pat, abs)}
				}
				rel = filepath.ToSlash(rel)
				if !seen[rel] {
					seen[rel] = true
					files = append(files, rel)
				}
			}
			sort.Strings(files)
			got[pat] = files
			want := model.GlobFiles(entries, pat)
			if strings.Join(files, "\x00") != strings.Join(want, "\x00") {
				sig := "glob-includes-non-matching"
				if missing := minus(want, files); len(missing) > 0 {
					sig = "glob-omits-matching-file"
				}
				return &rp.Fail{Sig: sig, Size: size, Msg: fmt.Sprintf("tree %v links %v: pattern %q denotes %v but spok expanded it to %v (expansion %d)", c.Paths, c.Links, pat, want, files, round+1)}
			}
			if s != nil && round == 0 {
				hidden := false
				for _, p := range c.Paths {
					for _, seg := range strings.Split(p, "/") {
						if strings.HasPrefix(seg, ".") {
							hidden = true
						}
					}
				}
				if hidden && len(want) > 0 {
					s.NonTrivial(strings.Join(c.Paths, ",") + "\x00" + pat + fmt.Sprint(c.ViaChain, c.Links))
				}
				if len(c.Links) > 0 {
					s.Class("tree_with_symbolic_links")
				}
				if len(want) > 0 {
					s.Class("pattern_with_matches")
				} else {
					s.Class("pattern_without_matches")
				}
			}
		}
		if round == 0 {
			first = got
		} else {
			for _, pat := range c.Patterns {
				if strings.Join(first[pat], "\x00") != strings.Join(got[pat], "\x00") {
					return &rp.Fail{Sig: "expansion-not-repeatable", Size: size, Msg: fmt.Sprintf("tree %v links %v: pattern %q expanded to %v first and %v on the second expansion of the unchanged tree", c.Paths, c.Links, pat, first[pat], got[pat])}
				}
			}
		}
	}
	// Third leg: what a pattern denotes, observed through skipping. One matched file is edited
	// and everything is run again unforced: exactly the tasks whose pattern denotes that file
	// must run again, whatever other tasks (with overlapping patterns) run in the same invocation.
	entries, err := model.Walk(root)
	if err != nil {
		return &rp.Fail{Sig: "harness", Msg: err.Error()}
	}
	denotes := map[string][]string{}
	victim := ""
	for _, pat := range c.Patterns {
		denotes[pat] = model.GlobFiles(entries, pat)
		for _, f := range denotes[pat] {
			if f != "spokfile" && (victim == "" || f < victim) {
				victim = f
			}
		}
	}
	// with links in the tree, prefer a victim that is (or lies below) a link
	viaLink := ""
	for _, pat := range c.Patterns {
		for _, f := range denotes[pat] {
			for l := range c.Links {
				if (f == l || strings.HasPrefix(f, l+"/")) && (viaLink == "" || f < viaLink) {
					viaLink = f
				}
			}
		}
	}
	if viaLink != "" {
		victim = viaLink
	}
	if victim == "" {
		return nil
	}
	runAll := func(force bool) (map[string]bool, *rp.Fail) {
		tree, err := parser.New(src).Parse()
		if err != nil {
			return nil, &rp.Fail{Sig: "harness", Msg: err.Error()}
		}
		sf, err := file.New(tree, root, nopLogger{})
		if err != nil {
			return nil, &rp.Fail{Sig: "harness", Msg: err.Error()}
		}
		rec := &recorder{count: map[string]int{}}
		if _, err := sf.Run(iostream.Null(), rec, force, tasks...); err != nil {
			return nil, &rp.Fail{Sig: "expansion-error", Size: size, Msg: fmt.Sprintf("tree %v links %v: run failed: %v", c.Paths, c.Links, err)}
		}
		ran := map[string]bool{}
		for name, n := range rec.count {
			ran[name] = n > 0
		}
		return ran, nil
	}
	if _, f := runAll(false); f != nil { // establishes a recorded success for every task
		return f
	}
	if err := writeFile(root, victim, "edited"); err != nil {
		return &rp.Fail{Sig: "harness", Msg: err.Error()}
	}
	ran, f := runAll(false)
	if f != nil {
		return f
	}
	for i, pat := range c.Patterns {
		name := patternTaskName(i)
		has := false
		for _, m := range denotes[pat] {
			has = has || m == victim
		}
		switch {
		case has && !ran[name]:
			return &rp.Fail{Sig: "glob-omits-matching-file", Size: size, Msg: fmt.Sprintf("tree %v links %v: %s matches pattern %q and was edited, but the task depending on that pattern was skipped when run together with the tasks of %d other patterns", c.Paths, c.Links, victim, pat, len(c.Patterns)-1)}
		case !has && len(denotes[pat]) > 0 && ran[name]:
			return &rp.Fail{Sig: "glob-includes-non-matching", Size: size, Msg: fmt.Sprintf("tree %v links %v: only %s was edited, which pattern %q does not match, yet the task depending on that pattern ran again", c.Paths, c.Links, victim, pat)}
		}
	}
	// Fourth leg: the tree changes between invocations — a file appears deep in the tree (no entry of
	// the spokfile's own directory changes), then disappears again; every fresh expansion denotes the
	// files that are there at that moment.
	for step, present := range []bool{true, false} {
		added := "src/sub/zz-added.x"
		if present {
			if err := writeFile(root, added, "x"); err != nil {
				return nil // the tree has a file where this leg wants a directory: nothing to add
			}
		} else if err := os.Remove(filepath.Join(root, filepath.FromSlash(added))); err != nil {
			return &rp.Fail{Sig: "harness", Msg: err.Error()}
		}
		entries, err := model.Walk(root)
		if err != nil {
			return &rp.Fail{Sig: "harness", Msg: err.Error()}
		}
		tree, err := parser.New(src).Parse()
		if err != nil {
			return &rp.Fail{Sig: "harness", Msg: err.Error()}
		}
		sf, err := file.New(tree, root, nopLogger{})
		if err != nil {
			return &rp.Fail{Sig: "harness", Msg: err.Error()}
		}
		if _, err := sf.Run(iostream.Null(), &recorder{count: map[string]int{}}, step == 1, tasks...); err != nil {
			return &rp.Fail{Sig: "expansion-error", Size: size, Msg: fmt.Sprintf("tree %v links %v: run failed after %s was %s: %v", c.Paths, c.Links, added, map[bool]string{true: "added", false: "removed"}[present], err)}
		}
		for _, pat := range c.Patterns {
			var files []string
			seen := map[string]bool{}
			for _, abs := range sf.Globs[pat] {
				if st, err := os.Stat(abs); err != nil || st.IsDir() {
					continue
				}
				rel, err := filepath.Rel(root, abs)
				if err != nil {
					continue
				}
				if rel = filepath.ToSlash(rel); !seen[rel] {
					seen[rel] = true
					files = append(files, rel)
				}
			}
			sort.Strings(files)
			want := model.GlobFiles(entries, pat)
			if strings.Join(files, "\x00") != strings.Join(want, "\x00") {
				sig := "glob-includes-non-matching"
				if len(minus(want, files)) > 0 {
					sig = "glob-omits-matching-file"
				}
				return &rp.Fail{Sig: sig, Size: size, Msg: fmt.Sprintf("tree %v links %v, after several invocations %s was %s: pattern %q denotes %v but spok expanded it to %v", c.Paths, c.Links, added, map[bool]string{true: "added", false: "removed"}[present], pat, want, files)}
			}
		}
	}
	return nil
}

func minus(a, b []string) []string {
	in := map[string]bool{}
	for _, x := range b {
		in[x] = true
	}
	var out []string
	for _, x := range a {
		if !in[x] {
			out = append(out, x)
		}
	}
	return out
}
