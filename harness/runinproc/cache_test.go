package runinproc

import (
	"encoding/json"
	"fmt"
	"os"
	"path/filepath"
	"sort"
	"testing"

	"pgregory.net/rapid"

	"verif/ev"
	"verif/rp"
)

func id() string { return os.Getenv("VERIF_ID") }

var (
	universe  = []string{"f1.txt", "f2.txt", "sub/f3.txt", "extra.txt", "sub/extra.txt", "g1.c", "g2.c", "note.md", ".store/s.txt", "B", "n[1].txt", "n1.txt"}
	literals  = []string{"f1.txt", "f2.txt", "sub/f3.txt"}
	globPats  = []string{"*.txt", "sub/*.txt", "**/*.txt", "*.c", "*/*.txt"}
	contents  = []string{"0", "1", "2"}
	taskNames = []string{"A", "B", "a"} // "A" and "a" are different tasks
)

// dirPool: names for the directory that holds the spokfile; characters that mean something to a glob
// or a format string are ordinary characters of a directory name.
var dirPool = []string{"proj [v2]", "release{1,2}", "my proj", "a*b", "q?z", "back\\slash", "pr%sj%d", "プロジェクト", "-dash", "**", ".hidden"}

func genDir(t *rapid.T) string {
	if rapid.IntRange(0, 3).Draw(t, "odd_dir") != 0 {
		return ""
	}
	return rapid.SampledFrom(dirPool).Draw(t, "dir")
}

func subset(t *rapid.T, label string, from []string, max int) []string {
	var out []string
	for _, f := range from {
		if len(out) < max && rapid.IntRange(0, 2).Draw(t, label+"_"+f) == 0 {
			out = append(out, f)
		}
	}
	return out
}

// missingOK tells whether literal dependencies may be deleted: only when hashing a missing
// file yields an error rather than killing the process (probed by the plan step).
func missingOK() bool { return os.Getenv("VERIF_MISSING_OK") == "1" }

func genCacheCase(t *rapid.T) CacheCase {
	n := rapid.IntRange(1, 3).Draw(t, "ntasks")
	c := CacheCase{Init: map[string]string{}}
	for i := 0; i < n; i++ {
		ts := TaskSpec{Name: taskNames[i]}
		switch rapid.IntRange(0, 5).Draw(t, "depshape") {
		case 0: // no file dependency at all
		case 1:
			ts.Files = subset(t, "lit", literals, 2)
		case 2:
			ts.Globs = subset(t, "glob", globPats, 2)
		default:
			ts.Files = subset(t, "lit", literals, 2)
			ts.Globs = subset(t, "glob", globPats, 2)
		}
		for j := i + 1; j < n; j++ {
			if rapid.IntRange(0, 2).Draw(t, "taskdep") == 0 {
				ts.Deps = append(ts.Deps, taskNames[j])
			}
		}
		ts.IdentsFirst = rapid.Bool().Draw(t, "idents_first")
		if len(ts.Deps) > 0 && ts.Deps[0] == "B" && rapid.IntRange(0, 2).Draw(t, "file_named_like_task") == 0 {
			ts.Files = append(ts.Files, "B") // a file called B next to the task called B
			c.Init["B"] = "0"
		}
		if rapid.IntRange(0, 7).Draw(t, "bracket_name") == 0 {
			ts.Files = append(ts.Files, "n[1].txt") // a literal name with characters other glob dialects care about
			c.Init["n[1].txt"] = "0"
			c.Init["n1.txt"] = "0"
		}
		ts.NCmds = rapid.SampledFrom([]int{0, 1, 1, 1, 2, 2}).Draw(t, "ncmds")
		if ts.NCmds > 0 && rapid.IntRange(0, 3).Draw(t, "has_side_effect") == 3 {
			// a command that rewrites an (existing) file, possibly a dependency of this or another task
			f := rapid.SampledFrom(universe).Draw(t, "side_effect_file")
			ts.Writes = append(ts.Writes, FileWrite{File: f, Content: rapid.SampledFrom(contents).Draw(t, "side_effect_content")})
		}
		c.Tasks = append(c.Tasks, ts)
	}
	for _, f := range universe {
		// literal dependencies exist initially (a spokfile naming a missing file is a load-time
		// matter for C18, not for the cache model), other files exist with probability 1/2
		isLit := false
		for _, l := range literals {
			isLit = isLit || l == f
		}
		if isLit || rapid.Bool().Draw(t, "init_"+f) {
			c.Init[f] = "0"
		}
	}
	// with probability 1/4 one task also depends on a path that is a symbolic link to a file
	// (literally, and through every *.txt glob): editing the target is editing that dependency
	if rapid.IntRange(0, 3).Draw(t, "with_link") == 3 {
		c.Links = map[string]string{"ln.txt": rapid.SampledFrom([]string{"f2.txt", "sub/f3.txt", "g1.c"}).Draw(t, "link_target")}
		k := rapid.IntRange(0, n-1).Draw(t, "link_task")
		c.Tasks[k].Files = append(c.Tasks[k].Files, "ln.txt")
		if rapid.Bool().Draw(t, "second_link") {
			// a second one (current -> release-a, standby -> release-b): links can be repointed
			c.Links["ln2.txt"] = rapid.SampledFrom([]string{"f2.txt", "sub/f3.txt", "g1.c", "f1.txt"}).Draw(t, "link2_target")
			c.Tasks[k].Files = append(c.Tasks[k].Files, "ln2.txt")
		}
	}
	// with probability 1/4 a directory is reachable through a symbolic link: the files below the link
	// have matching relative paths of their own (the link's target is hidden, so only the link's path counts)
	if rapid.IntRange(0, 3).Draw(t, "with_dirlink") == 3 {
		if c.Links == nil {
			c.Links = map[string]string{}
		}
		c.Links["lnd"] = ".store"
		c.Init[".store/s.txt"] = "0"
	}
	// rarely: a dangling link among the files a glob matches (it cannot be hashed; only forced runs get past it)
	if missingOK() && rapid.IntRange(0, 11).Draw(t, "with_dangling") == 11 {
		if c.Links == nil {
			c.Links = map[string]string{}
		}
		c.Links["extra.txt"] = "nowhere"
		delete(c.Init, "extra.txt")
	}
	c.Dir = genDir(t)
	c.Junk = rapid.IntRange(0, 5).Draw(t, "junk_in_cache_dir") == 0
	names := append([]string(nil), taskNames[:n]...)
	if rapid.IntRange(0, 3).Draw(t, "late_task") == 0 {
		// a task that is added to the spokfile in the course of the history
		z := TaskSpec{Name: "Z", NCmds: 1}
		if rapid.Bool().Draw(t, "late_glob") {
			z.Globs = []string{rapid.SampledFrom(globPats).Draw(t, "late_pat")}
		} else {
			z.Files = []string{rapid.SampledFrom(literals).Draw(t, "late_file")}
		}
		c.Late = []TaskSpec{z}
		names = append(names, "Z")
	}
	nsteps := rapid.IntRange(2, 14).Draw(t, "nsteps")
	if ev.Thorough() {
		nsteps = rapid.IntRange(2, 30).Draw(t, "nsteps2")
	}
	for i := 0; i < nsteps; i++ {
		var st Step
		switch k := rapid.IntRange(0, 22).Draw(t, "op"); {
		case k < 6:
			st = Step{Op: "write", File: rapid.SampledFrom(universe).Draw(t, "file"), Content: rapid.SampledFrom(contents).Draw(t, "content")}
		case k < 9:
			st = Step{Op: "revert", File: rapid.SampledFrom(universe).Draw(t, "file")}
		case k < 11:
			st = Step{Op: "delete", File: rapid.SampledFrom(universe).Draw(t, "file")}
			if !missingOK() {
				for _, l := range literals {
					if l == st.File {
						st = Step{Op: "delete", File: "extra.txt"}
					}
				}
			}
		case k < 12:
			st = Step{Op: "rmcache", Whole: rapid.Bool().Draw(t, "whole")}
		case k < 14 && len(c.Late) > 0:
			st = Step{Op: "grow"}
		case k < 13:
			if _, two := c.Links["ln2.txt"]; two && rapid.Bool().Draw(t, "swap_links") {
				st = Step{Op: "swap", File: "ln.txt", File2: "ln2.txt"}
			} else {
				pair := rapid.Permutation([]string{"f1.txt", "f2.txt", "extra.txt", "g1.c", "g2.c", "n1.txt"}).Draw(t, "swap_pair")
				st = Step{Op: "swap", File: pair[0], File2: pair[1]}
			}
		default:
			st = Step{Op: "run"}
			perm := rapid.Permutation(names).Draw(t, "order")
			k := rapid.IntRange(1, len(perm)).Draw(t, "nreq")
			st.Tasks = append([]string(nil), perm[:k]...)
			if rapid.IntRange(0, 9).Draw(t, "dup") == 0 {
				st.Tasks = append(st.Tasks, st.Tasks[0])
			}
			if rapid.IntRange(0, 2).Draw(t, "elsewhere") == 0 {
				st.Cwd = rapid.IntRange(1, 2).Draw(t, "cwd")
			}
			st.Force = rapid.IntRange(0, 3).Draw(t, "force") == 0
			if id() == "C14" {
				st.Force = rapid.Bool().Draw(t, "force14")
			}
			if rapid.IntRange(0, 7).Draw(t, "anyabort") == 7 {
				st.Abort = []string{rapid.SampledFrom(names).Draw(t, "aborttask")}
			}
			if rapid.IntRange(0, 4).Draw(t, "anyfail") == 0 {
				st.Fail = map[string]int{}
				for _, nme := range names {
					if rapid.IntRange(0, 1).Draw(t, "fail_"+nme) == 0 {
						st.Fail[nme] = rapid.IntRange(0, 1).Draw(t, "failidx")
					}
				}
			}
		}
		c.Steps = append(c.Steps, st)
	}
	return c
}

func classifyCase(s *ev.Shard, c CacheCase) {
	lits := map[string]int{}
	chain := false
	for _, t := range c.Tasks {
		if len(t.Files)+len(t.Globs) == 0 {
			s.Class("prog_has_task_without_file_dep")
		}
		for _, f := range t.Files {
			lits[f]++
		}
		if len(t.Files) > 0 && len(t.Globs) > 0 {
			s.Class("prog_task_glob_and_literal")
		}
		if len(t.Deps) > 0 {
			chain = true
		}
		if len(t.Writes) > 0 {
			s.Class("prog_task_rewrites_other_tasks_input")
		}
	}
	if len(c.Links) > 0 {
		s.Class("prog_dependency_is_symlink")
	}
	for _, n := range lits {
		if n > 1 {
			s.Class("prog_tasks_share_file")
			break
		}
	}
	if chain {
		s.Class("prog_task_dependency")
	}
	for _, st := range c.Steps {
		s.Class("op_" + st.Op)
		if st.Op == "run" {
			if st.Force {
				s.Class("run_forced")
			}
			if len(st.Fail) > 0 {
				s.Class("run_with_failing_command")
			}
			if len(st.Abort) > 0 {
				s.Class("run_aborted_by_runner_error")
			}
			if len(st.Tasks) > 1 {
				s.Class("run_multi_task")
			}
		}
	}
}

func workRoot(t testing.TB) string {
	base := os.Getenv("VERIF_WORK")
	if base == "" {
		base = os.TempDir()
	}
	dir, err := os.MkdirTemp(base, "rip-")
	if err != nil {
		t.Fatal(err)
	}
	t.Cleanup(func() { os.RemoveAll(dir) })
	return dir
}

// TestCache is the rapid state-machine check for C01 / C02 / C14.
func TestCache(t *testing.T) {
	s := ev.Open(t, id())
	root := filepath.Join(workRoot(t), "proj")
	rp.Check(t, s, "cache", genCacheCase, func(c CacheCase) *rp.Fail {
		if !s.Frozen() {
			classifyCase(s, c)
			if s.WantSample() {
				s.Sample(map[string]any{"spokfile": c.Source(), "init": c.Init, "steps": c.Steps})
			}
		}
		return execCache(id(), s, root, c)
	})
}

// ---- bounded-exhaustive small scope -------------------------------------------------

var enumProgs = [][]TaskSpec{
	{{Name: "A", Files: []string{"a.txt"}, NCmds: 1}, {Name: "B", Files: []string{"b.txt"}, NCmds: 1}},
	{{Name: "A", Files: []string{"a.txt"}, NCmds: 1}, {Name: "B", NCmds: 1}},
	{{Name: "A", Globs: []string{"*.txt"}, Deps: []string{"B"}, NCmds: 1}, {Name: "B", Files: []string{"b.txt"}, NCmds: 1}},
	{{Name: "A", Files: []string{"a.txt"}, Deps: []string{"B"}, NCmds: 1}, {Name: "B", Files: []string{"b.txt"}, NCmds: 1, Writes: []FileWrite{{File: "a.txt", Content: "2"}}}},
}

var enumActions = []Step{
	{Op: "write", File: "a.txt", Content: "1"},
	{Op: "write", File: "a.txt", Content: "0"},
	{Op: "write", File: "b.txt", Content: "1"},
	{Op: "write", File: "b.txt", Content: "0"},
	{Op: "run", Tasks: []string{"A"}},
	{Op: "run", Tasks: []string{"B"}},
	{Op: "run", Tasks: []string{"A", "B"}},
	{Op: "run", Tasks: []string{"A"}, Force: true},
	{Op: "run", Tasks: []string{"A", "B"}, Force: true},
	{Op: "run", Tasks: []string{"A", "B"}, Fail: map[string]int{"B": 0}},
	{Op: "run", Tasks: []string{"A", "B"}, Fail: map[string]int{"A": 0}},
	{Op: "rmcache", Whole: true},
}

func enumMaxLen() int {
	if ev.Thorough() {
		return 6
	}
	return 4
}

func enumSeqTotal(maxLen int) uint64 {
	var total, p uint64 = 0, 1
	for l := 0; l <= maxLen; l++ {
		total += p
		p *= uint64(len(enumActions))
	}
	return total
}

func enumCase(idx uint64) CacheCase {
	per := enumSeqTotal(enumMaxLen())
	prog := enumProgs[idx/per]
	idx %= per
	k := uint64(len(enumActions))
	l, p := 0, uint64(1)
	for idx >= p {
		idx -= p
		p *= k
		l++
	}
	steps := make([]Step, l)
	for i := l - 1; i >= 0; i-- {
		steps[i] = enumActions[idx%k]
		idx /= k
	}
	return CacheCase{Tasks: prog, Init: map[string]string{"a.txt": "0", "b.txt": "0"}, Steps: steps}
}

// TestCacheEnum runs every action sequence up to the length bound over the fixed programs.
func TestCacheEnum(t *testing.T) {
	s := ev.Open(t, id())
	root := filepath.Join(workRoot(t), "proj")
	lo, hi := ev.RangeFromEnv()
	seen := map[string]bool{}
	for idx := lo; idx < hi; idx++ {
		c := enumCase(idx)
		s.Progress(idx, nil)
		s.Eval()
		s.Class("space_enum")
		if idx%9973 == 0 {
			s.Sample(map[string]any{"spokfile": c.Source(), "steps": c.Steps})
		}
		if f := execCache(id(), s, root, c); f != nil {
			if s.IsKnown(f.Sig) {
				s.Known(f.Sig, c)
				continue
			}
			if !seen[f.Sig] {
				seen[f.Sig] = true
				s.Violation("cache", f.Sig, f.Msg, f.Size, c)
			}
		}
	}
	s.Extra("enum_max_actions", enumMaxLen())
	if s.Failed() {
		t.Fatal("violations recorded")
	}
}

// ---- scenario templates ----------------------------------------------------------------
//
// Stale-digest defects share one shape: establish a success, perturb an input, run again
// under some special circumstance, restore the input, run plainly. Every combination of the
// parameters below is executed (exhaustive over the template space).

func templateCases() []CacheCase {
	var out []CacheCase
	run := func(tasks []string, force bool, fail map[string]int) Step {
		return Step{Op: "run", Tasks: tasks, Force: force, Fail: fail}
	}
	perturb := [][]Step{
		{{Op: "write", File: "a.txt", Content: "1"}},
		{{Op: "delete", File: "a.txt"}},
		{{Op: "write", File: "b.txt", Content: "1"}},
		{{Op: "write", File: "a.txt", Content: "1"}, {Op: "write", File: "b.txt", Content: "1"}},
	}
	middle := []Step{
		run([]string{"A"}, false, nil), run([]string{"A"}, true, nil), run([]string{"A", "B"}, false, nil), run([]string{"B", "A"}, true, nil),
		run([]string{"A", "B"}, false, map[string]int{"B": 0}), run([]string{"A", "B"}, false, map[string]int{"A": 0}),
		run([]string{"A"}, true, map[string]int{"A": 0}), run([]string{"B"}, false, nil), {Op: "rmcache", Whole: true}, {Op: "rmcache"},
		{Op: "run", Tasks: []string{"A", "B"}, Force: true, Abort: []string{"B"}}, {Op: "run", Tasks: []string{"A", "B"}, Abort: []string{"B"}},
		{Op: "run", Tasks: []string{"B", "A"}, Force: true, Abort: []string{"A"}},
	}
	restore := [][]Step{
		{{Op: "revert", File: "a.txt"}, {Op: "revert", File: "b.txt"}},
		{{Op: "write", File: "a.txt", Content: "0"}, {Op: "write", File: "b.txt", Content: "0"}},
		{},
		{{Op: "write", File: "a.txt", Content: "2"}},
	}
	final := []Step{run([]string{"A"}, false, nil), run([]string{"A", "B"}, false, nil), run([]string{"B"}, false, nil)}
	first := []Step{run([]string{"A", "B"}, false, nil), run([]string{"A"}, false, nil), run([]string{"A", "B"}, true, nil)}
	for _, prog := range enumProgs {
		for _, f := range first {
			for _, p := range perturb {
				for _, m := range middle {
					for _, r := range restore {
						for _, fin := range final {
							steps := []Step{f}
							steps = append(steps, p...)
							steps = append(steps, m)
							steps = append(steps, r...)
							steps = append(steps, fin, fin)
							out = append(out, CacheCase{Tasks: prog, Init: map[string]string{"a.txt": "0", "b.txt": "0"}, Steps: steps})
						}
					}
				}
			}
		}
	}
	// boundary shifts: bytes move between the end of a file's name and the start of its content
	// (a digest that merely concatenates path and content cannot tell the two apart)
	shift := []TaskSpec{{Name: "A", Globs: []string{"n*"}, NCmds: 1}, {Name: "B", Files: []string{"b.txt"}, NCmds: 1}}
	for _, pair := range [][4]string{{"n", "1Z", "n1", "Z"}, {"n1", "Z", "n", "1Z"}, {"n", ".txtHello", "n.txt", "Hello"}, {"nab", "", "na", "b"}} {
		for _, fin := range final {
			out = append(out, CacheCase{Tasks: shift, Init: map[string]string{pair[0]: pair[1], "b.txt": "0"}, Steps: []Step{
				run([]string{"A", "B"}, false, nil), {Op: "delete", File: pair[0]}, {Op: "write", File: pair[2], Content: pair[3]}, fin, fin}})
		}
	}
	// a dangling link among the glob matches: only a forced run gets past it; once it is removed the
	// set of dependency paths has changed
	dang := []TaskSpec{{Name: "A", Globs: []string{"*.txt"}, NCmds: 1}, {Name: "B", Files: []string{"b.txt"}, NCmds: 1}}
	for _, fin := range final {
		out = append(out, CacheCase{Tasks: dang, Init: map[string]string{"a.txt": "0", "b.txt": "0"}, Links: map[string]string{"zz.txt": "nowhere"}, Steps: []Step{
			run([]string{"A", "B"}, true, nil), {Op: "delete", File: "zz.txt"}, fin, fin}})
		out = append(out, CacheCase{Tasks: dang, Init: map[string]string{"a.txt": "0", "b.txt": "0"}, Steps: []Step{
			run([]string{"A", "B"}, false, nil), {Op: "write", File: "a.txt", Content: "1"}, run([]string{"A"}, true, nil), {Op: "write", File: "a.txt", Content: "0"}, fin, fin}})
	}
	// files reached through a link to a directory: their content is part of what the glob names
	dl := []TaskSpec{{Name: "A", Globs: []string{"*/*.txt"}, NCmds: 1}, {Name: "B", Globs: []string{"**/*.txt"}, NCmds: 1}}
	for _, fin := range final {
		out = append(out, CacheCase{Tasks: dl, Init: map[string]string{".store/s.txt": "0", "f1.txt": "0", "sub/f3.txt": "0"}, Links: map[string]string{"lnd": ".store"}, Steps: []Step{
			run([]string{"A", "B"}, false, nil), {Op: "write", File: ".store/s.txt", Content: "1"}, fin, fin, {Op: "write", File: ".store/s.txt", Content: "0"}, fin}})
	}
	// the set of files a glob names shrinks to nothing, shrinks, grows, or is swapped for another
	// file of the same content, after an unforced / forced / unforced-then-forced success
	mix := []TaskSpec{{Name: "A", Files: []string{"b.txt"}, Globs: []string{"s*.c"}, NCmds: 1}, {Name: "B", Globs: []string{"s*.c"}, NCmds: 1}}
	del := func(f string) Step { return Step{Op: "delete", File: f} }
	wr := func(f, c string) Step { return Step{Op: "write", File: f, Content: c} }
	for _, firsts := range [][]Step{{run([]string{"A", "B"}, false, nil)}, {run([]string{"A", "B"}, true, nil)}, {run([]string{"A", "B"}, false, nil), run([]string{"A"}, true, nil)}, {run([]string{"A", "B"}, false, nil), wr("s1.c", "1"), run([]string{"B", "A"}, true, nil)}} {
		for _, change := range [][]Step{{del("s1.c"), del("s2.c")}, {del("s1.c")}, {wr("s3.c", "0")}, {del("s1.c"), wr("s3.c", "0")}, {del("s1.c"), del("s2.c"), wr("s2.c", "0")}} {
			for _, fin := range final {
				steps := append(append(append([]Step(nil), firsts...), change...), fin, fin)
				out = append(out, CacheCase{Tasks: mix, Init: map[string]string{"b.txt": "0", "s1.c": "0", "s2.c": "0"}, Steps: steps})
			}
		}
	}
	// ... and: the matched set is emptied, the tasks run (forced or not) on the empty set, and the very
	// same files come back
	for _, mid := range []Step{run([]string{"A", "B"}, false, nil), run([]string{"A", "B"}, true, nil), run([]string{"B"}, true, nil), run([]string{"B"}, false, map[string]int{"B": 0})} {
		for _, fin := range final {
			out = append(out, CacheCase{Tasks: mix, Init: map[string]string{"b.txt": "0", "s1.c": "0", "s2.c": "0"}, Steps: []Step{
				run([]string{"A", "B"}, false, nil), del("s1.c"), del("s2.c"), mid, wr("s1.c", "0"), wr("s2.c", "0"), fin, fin}})
		}
	}
	// the same project run from different working directories, with an edit that is undone again
	at := func(st Step, cwd int) Step { st.Cwd = cwd; return st }
	for _, prog := range enumProgs[:2] {
		for _, fin := range final {
			for _, ab := range [][2]int{{0, 1}, {1, 0}, {1, 2}} {
				out = append(out, CacheCase{Tasks: prog, Init: map[string]string{"a.txt": "0", "b.txt": "0"}, Steps: []Step{
					at(run([]string{"A", "B"}, false, nil), ab[0]), {Op: "write", File: "a.txt", Content: "1"}, at(run([]string{"A", "B"}, false, nil), ab[1]),
					{Op: "write", File: "a.txt", Content: "0"}, at(fin, ab[0]), at(fin, ab[1])}})
			}
		}
	}
	// the only file a glob matches is replaced by another name with the same content (and back)
	one := []TaskSpec{{Name: "A", Globs: []string{"*.c"}, NCmds: 1}, {Name: "B", Files: []string{"b.txt"}, Globs: []string{"*.c"}, NCmds: 1}}
	for _, fin := range final {
		for _, junk := range []bool{false, true} {
			out = append(out, CacheCase{Tasks: one, Junk: junk, Init: map[string]string{"b.txt": "0", "g1.c": "0"}, Steps: []Step{
				run([]string{"A", "B"}, false, nil), del("g1.c"), wr("g2.c", "0"), fin, fin, del("g2.c"), wr("g1.c", "0"), fin}})
			out = append(out, CacheCase{Tasks: one, Junk: junk, Init: map[string]string{"b.txt": "0", "g1.c": "0"}, Steps: []Step{
				run([]string{"A", "B"}, false, nil), wr("g1.c", "1"), fin, wr("g1.c", "0"), fin, fin}})
		}
	}
	// a file named like a task the same task depends on; a literal name with brackets beside its look-alike
	odd := []TaskSpec{{Name: "A", Files: []string{"B", "b.txt"}, Deps: []string{"B"}, IdentsFirst: true, NCmds: 1}, {Name: "B", Files: []string{"n[1].txt"}, NCmds: 1}}
	for _, f := range []string{"B", "n[1].txt", "n1.txt"} {
		for _, fin := range final {
			out = append(out, CacheCase{Tasks: odd, Init: map[string]string{"B": "0", "b.txt": "0", "n[1].txt": "0", "n1.txt": "0"}, Steps: []Step{
				run([]string{"A", "B"}, false, nil), wr(f, "1"), fin, fin, wr(f, "0"), fin}})
		}
	}
	// a dependency that is a symbolic link: the target is edited, not the link
	linked := []TaskSpec{{Name: "A", Files: []string{"ln.txt"}, NCmds: 1}, {Name: "B", Globs: []string{"l*.txt"}, NCmds: 1}}
	for _, fin := range final {
		out = append(out, CacheCase{Tasks: linked, Init: map[string]string{"a.txt": "0", "b.txt": "0"}, Links: map[string]string{"ln.txt": "a.txt"}, Steps: []Step{
			run([]string{"A", "B"}, false, nil), {Op: "write", File: "a.txt", Content: "1"}, fin, fin, {Op: "write", File: "a.txt", Content: "0"}, fin}})
	}
	// two dependencies that are links exchange their targets (the switch-over of current and standby);
	// two regular files exchange their names
	two := []TaskSpec{{Name: "A", Files: []string{"ln.txt", "ln2.txt"}, NCmds: 1}, {Name: "B", Globs: []string{"l*.txt"}, NCmds: 1}}
	plain := []TaskSpec{{Name: "A", Files: []string{"a.txt", "b.txt"}, NCmds: 1}, {Name: "B", Globs: []string{"*.txt"}, NCmds: 1}}
	for _, fin := range final {
		out = append(out, CacheCase{Tasks: two, Init: map[string]string{"a.txt": "0", "b.txt": "1"}, Links: map[string]string{"ln.txt": "a.txt", "ln2.txt": "b.txt"}, Steps: []Step{
			run([]string{"A", "B"}, false, nil), {Op: "swap", File: "ln.txt", File2: "ln2.txt"}, fin, fin, {Op: "swap", File: "ln.txt", File2: "ln2.txt"}, fin}})
		out = append(out, CacheCase{Tasks: plain, Init: map[string]string{"a.txt": "0", "b.txt": "1"}, Steps: []Step{
			run([]string{"A", "B"}, false, nil), {Op: "swap", File: "a.txt", File2: "b.txt"}, fin, fin, {Op: "swap", File: "a.txt", File2: "b.txt"}, fin}})
	}
	// the spokfile gains a task between runs; only the new task is asked for; then all of them
	old := []TaskSpec{{Name: "A", Files: []string{"a.txt"}, NCmds: 1}, {Name: "B", Globs: []string{"*.txt"}, NCmds: 1}}
	for _, z := range []TaskSpec{{Name: "Z", Files: []string{"b.txt"}, NCmds: 1}, {Name: "Z", NCmds: 1}, {Name: "Z", Globs: []string{"*.txt"}, Deps: []string{"A"}, NCmds: 1}} {
		for _, fin := range final {
			out = append(out, CacheCase{Tasks: old, Late: []TaskSpec{z}, Init: map[string]string{"a.txt": "0", "b.txt": "1"}, Steps: []Step{
				run([]string{"A", "B"}, false, nil), {Op: "grow"}, run([]string{"Z"}, false, nil), fin, run([]string{"A", "B", "Z"}, false, nil), fin}})
		}
	}
	return out
}

// TestCacheTemplates runs the template space slice [VERIF_LO, VERIF_HI).
func TestCacheTemplates(t *testing.T) {
	s := ev.Open(t, id())
	root := filepath.Join(workRoot(t), "proj")
	cases := templateCases()
	lo, hi := ev.RangeFromEnv()
	seen := map[string]bool{}
	for idx := lo; idx < hi && idx < uint64(len(cases)); idx++ {
		c := cases[idx]
		if !missingOK() {
			skip := false
			for _, st := range c.Steps {
				for _, t := range c.Tasks {
					for _, l := range t.Files {
						skip = skip || (st.Op == "delete" && st.File == l)
					}
				}
			}
			if skip {
				s.Class("excluded_missing_literal_crashes")
				continue
			}
		}
		s.Progress(idx, nil)
		s.Eval()
		s.Class("space_templates")
		if idx%997 == 0 {
			s.Sample(map[string]any{"spokfile": c.Source(), "steps": c.Steps})
		}
		if f := execCache(id(), s, root, c); f != nil {
			if s.IsKnown(f.Sig) {
				s.Known(f.Sig, c)
				continue
			}
			if !seen[f.Sig] {
				seen[f.Sig] = true
				s.Violation("cache", f.Sig, f.Msg, f.Size, c)
			}
		}
	}
	if s.Failed() {
		t.Fatal("violations recorded")
	}
}

func sortedKeys(m map[string]string) []string {
	out := make([]string, 0, len(m))
	for k := range m {
		out = append(out, k)
	}
	sort.Strings(out)
	return out
}

// TestReplay re-executes one saved case.
func TestReplay(t *testing.T) {
	data, err := os.ReadFile(os.Getenv("VERIF_REPLAY"))
	if err != nil {
		t.Skip("no replay file")
	}
	var v ev.Violation
	if err := json.Unmarshal(data, &v); err != nil {
		t.Fatalf("bad replay file: %v", err)
	}
	root := filepath.Join(workRoot(t), "proj")
	var f *rp.Fail
	switch v.Kind {
	case "cache":
		var c CacheCase
		if err := json.Unmarshal(v.Case, &c); err != nil {
			t.Fatal(err)
		}
		fmt.Println(c.Source())
		f = execCache(v.Property, nil, root, c)
	case "graph":
		var c GraphCase
		if err := json.Unmarshal(v.Case, &c); err != nil {
			t.Fatal(err)
		}
		f = execGraph(nil, root, c)
	case "glob", "unpriv-glob":
		var c GlobCase
		if err := json.Unmarshal(v.Case, &c); err != nil {
			t.Fatal(err)
		}
		f = execGlob(nil, root, c)
	default:
		t.Fatalf("unknown replay kind %q", v.Kind)
	}
	if f != nil {
		t.Fatalf("%s [%s]", f.Msg, f.Sig)
	}
}
