package runinproc

import (
	"encoding/json"
	"fmt"
	"math/bits"
	"os"
	"os/exec"
	"path/filepath"
	"strings"
	"testing"

	"github.com/bmatcuk/doublestar/v4"
	"pgregory.net/rapid"

	"github.com/FollowTheProcess/spok/hash"

	"verif/ev"
	"verif/model"
	"verif/rp"
)

var rules = map[string]string{
	"C01": "histories over {write/revert/delete a file, run an ordered task list (optionally forced, optionally with a failing command), remove the cache} on generated spokfiles of 1-3 tasks mixing literal, glob and task dependencies; every run is a fresh parse+load+Run with a recording runner; reference model: per task the dependency snapshot at its last observed successful completion. Non-trivial: >= 2 runs, a file action between two runs, and a skipped task or a multi-task run; distinct by (program, initial tree, history)",
	"C02": "same histories and model as C01, converse predicate: an executed task in an unforced run must not have inputs equal to those of its last success (unless tainted by a later failure, cache removed, or no matching dependency file); tasks without file dependencies are never skipped. Non-trivial as C01",
	"C14": "same histories with force drawn with probability 1/2: in a forced run without injected failure every requested task is reported, none is skipped and every reported task executes all its commands; a later unforced skip of a task whose last success was forced must satisfy the C01 condition. Non-trivial: forced run on an up-to-date task, or forced run followed by a file action and an unforced run",
	"C03": "dependency graphs written as spokfiles (every edge set incl. self-loops on up to 3 (quick) / 4 (thorough) tasks x every request subset and extra orderings/repeats/undefined names, plus rapid graphs on 4-8 tasks with duplicates, undefined dependencies, failing commands, file dependencies), each run several times with fresh loads; oracle: reachability + DFS cycle test over declared edges, validity predicate over results and recorded execution order. Non-trivial: closure size >= 2 or an error case; distinct by (spokfile, request)",
	"C05": "directory trees from every subset of a pool of candidate paths (hidden files and directories at top level and nested, names sorting before and after '.') x a fixed pattern set, plus rapid trees; expansion read from SpokFile.Globs after running all tasks, twice with fresh loads; oracle: own matcher over a full directory walk minus paths beginning with a dot, compared as sets of regular files. Non-trivial: tree has a hidden entry and the reference set is non-empty; distinct by (tree, pattern)",
}

// probeMissing runs Hash on a missing path in a child process.
func probeMissing() bool {
	cmd := exec.Command(os.Args[0], "-test.run", "^TestProbeMissing$", "-test.count", "1")
	cmd.Env = append(os.Environ(), "VERIF_PROBE=1")
	out, err := cmd.CombinedOutput()
	return err == nil && strings.Contains(string(out), "PROBE-ERROR-RETURNED")
}

func TestProbeMissing(t *testing.T) {
	if os.Getenv("VERIF_PROBE") != "1" {
		t.Skip()
	}
	_, err := hash.New().Hash([]string{filepath.Join(os.TempDir(), "verif-definitely-missing-file")})
	if err != nil {
		fmt.Println("PROBE-ERROR-RETURNED")
	}
}

// TestMatcher cross-checks the reference matcher against doublestar.Match on the pattern
// set; a disagreement is a harness error, not a finding.
func TestMatcher(t *testing.T) {
	paths := []string{"[d]raft.x", "q*r.x", "qr.x", "d.x", "draft.x", "src/.x", "src/ax", "b.y", "a.x", "z.x", "-first.x", ".hid.x", ".env", ".git/a.x", ".git", "src", "src/a.x", "src/.h.x", "src/.d", "src/.d/a.x", "src/sub", "src/sub/b.x", "other.y", "emptyd", "spokfile", "lib/q.x", "s/a.x", "ab.x", "src/sub/deep/c.x"}
	for _, pat := range globPatterns {
		for _, p := range paths {
			want, err := doublestar.Match(pat, p)
			if err != nil {
				t.Fatalf("pattern %q: %v", pat, err)
			}
			if got := model.Match(pat, p); got != want {
				t.Fatalf("reference matcher disagrees with doublestar on (%q, %q): %v vs %v", pat, p, got, want)
			}
		}
	}
}

func TestPlan(t *testing.T) {
	p := ev.Plan{Property: id(), Level: "exploration", Rule: rules[id()]}
	p.Assumptions = []string{
		"the recording shell.Runner is the ground truth of what executed; every run step is a fresh parse + file.New + Run, as a new process would do",
		"reference models (snapshot map, reachability, glob matcher) are trusted; the glob matcher is cross-checked against doublestar.Match at start-up",
	}
	thorough := ev.Thorough()
	env := map[string]string{"VERIF_MISSING_OK": "0"}
	if probeMissing() {
		env["VERIF_MISSING_OK"] = "1"
	}
	switch id() {
	case "C01", "C02", "C14":
		n, checks := 16, 1500
		if thorough {
			n, checks = 16, 12000
		}
		p.Shards = append(p.Shards, ev.RapidShards("hist", "^TestCache$", n, checks, env)...)
		total := enumSeqTotal(enumMaxLen()) * uint64(len(enumProgs))
		per := total/48 + 1
		p.Shards = append(p.Shards, ev.RangeShards("enum", "^TestCacheEnum$", total, per, env)...)
		nt := uint64(len(templateCases()))
		p.Shards = append(p.Shards, ev.RangeShards("templates", "^TestCacheTemplates$", nt, nt/16+1, env)...)
		if ts, err := exec.LookPath("taskset"); err == nil {
			// the hasher sizes its worker pool by runtime.NumCPU (the affinity mask): the same histories on
			// two CPUs and on one, where three dependency files are already "more files than workers"
			for _, cpus := range []string{"0,1", "0"} {
				tag := map[string]string{"0,1": "2cpu", "0": "1cpu"}[cpus]
				hs := ev.RapidShards("hist-"+tag, "^TestCache$", 2, checks, env)
				tp := ev.RangeShards("templates-"+tag, "^TestCacheTemplates$", nt, nt/2+1, env)
				for _, sh := range append(hs, tp...) {
					sh.Wrap = []string{ts, "-c", cpus}
					p.Shards = append(p.Shards, sh)
				}
			}
		}
	case "C03":
		total := graphEnumTotal()
		p.Shards = append(p.Shards, ev.RangeShards("enum", "^TestGraphEnum$", total, total/32+1, env)...)
		n, checks := 8, 300
		if thorough {
			n, checks = 16, 4000
		}
		p.Shards = append(p.Shards, ev.RapidShards("rapid", "^TestGraphRapid$", n, checks, env)...)
	case "C05":
		total := globEnumTotal()
		p.Shards = append(p.Shards, ev.RangeShards("enum", "^TestGlobEnum$", total, total/32+1, env)...)
		p.Shards = append(p.Shards, ev.ShardSpec{Name: "links", Test: "^TestGlobLinks$", Env: env})
		p.Shards = append(p.Shards, ev.ShardSpec{Name: "unprivileged", Test: "^TestGlobUnprivileged$", Env: env, AsNobody: true, TimeoutS: 900})
		n, checks := 4, 150
		if thorough {
			n, checks = 16, 400
		}
		p.Shards = append(p.Shards, ev.RapidShards("rapid", "^TestGlobRapid$", n, checks, env)...)
	}
	if err := ev.WritePlan(p); err != nil {
		t.Fatal(err)
	}
}

// ---- C03 ----------------------------------------------------------------------------

func graphEnumN() int {
	if ev.Thorough() {
		return 4
	}
	return 3
}

// request lists tried for every graph: every non-empty subset in index order, plus
// reversed order, a repeated name and an undefined name.
func graphRequests(n int) [][]string {
	var out [][]string
	for mask := 1; mask < 1<<n; mask++ {
		var r []string
		for i := 0; i < n; i++ {
			if mask&(1<<i) != 0 {
				r = append(r, graphNames[i])
			}
		}
		out = append(out, r)
	}
	full := out[len(out)-1]
	rev := make([]string, len(full))
	for i, x := range full {
		rev[len(full)-1-i] = x
	}
	if n > 1 {
		out = append(out, rev)
	}
	out = append(out, []string{graphNames[0], graphNames[0]})
	out = append(out, []string{graphNames[0], undefinedName})
	return out
}

// every (graph, request) is run in graphVariants shapes: plain; every task shadowed by a
// global variable of the same name; task 0 first defined with an empty body and defined again.
const graphVariants = 3

func graphEnumTotal() uint64 {
	var total uint64
	for n := 1; n <= graphEnumN(); n++ {
		total += (uint64(1) << (n * n)) * uint64(len(graphRequests(n))) * graphVariants
	}
	return total
}

func graphEnumCase(idx uint64) GraphCase {
	for n := 1; n <= graphEnumN(); n++ {
		reqs := graphRequests(n)
		cnt := (uint64(1) << (n * n)) * uint64(len(reqs)) * graphVariants
		if idx >= cnt {
			idx -= cnt
			continue
		}
		variant := idx % graphVariants
		idx /= graphVariants
		mask := idx / uint64(len(reqs))
		req := reqs[idx%uint64(len(reqs))]
		c := GraphCase{N: n, Request: req, Reps: 3}
		c.Reuse = variant == 0 && mask%2 == 1 // half of the plain cases run one loaded SpokFile three times
		switch variant {
		case 1:
			for i := 0; i < n; i++ {
				c.VarLike = append(c.VarLike, i)
			}
		case 2:
			c.Empty, c.Dup = []int{0}, []int{0}
		}
		for i := 0; i < n; i++ {
			for j := 0; j < n; j++ {
				if mask&(1<<(i*n+j)) != 0 {
					c.Edges = append(c.Edges, [2]int{i, j})
				}
			}
		}
		return c
	}
	return GraphCase{N: 1, Request: []string{graphNames[0]}, Reps: 1}
}

func TestGraphEnum(t *testing.T) {
	s := ev.Open(t, "C03")
	root := filepath.Join(workRoot(t), "proj")
	lo, hi := ev.RangeFromEnv()
	seen := map[string]bool{}
	for idx := lo; idx < hi; idx++ {
		c := graphEnumCase(idx)
		s.Progress(idx, nil)
		s.Eval()
		s.Class("space_enum")
		if idx%4099 == 0 {
			s.Sample(map[string]any{"spokfile": c.Source(), "request": c.Request})
		}
		if f := execGraph(s, root, c); f != nil {
			if s.IsKnown(f.Sig) {
				s.Known(f.Sig, c)
				continue
			}
			if !seen[f.Sig] {
				seen[f.Sig] = true
				s.Violation("graph", f.Sig, f.Msg, f.Size, c)
			}
		}
	}
	s.Extra("enum_max_tasks", graphEnumN())
	if s.Failed() {
		t.Fatal("violations recorded")
	}
}

func genGraph(t *rapid.T) GraphCase {
	n := rapid.IntRange(4, 8).Draw(t, "n")
	if rapid.IntRange(0, 5).Draw(t, "large") == 0 {
		n = rapid.IntRange(21, 36).Draw(t, "n_large") // enough tasks for sorts and maps to leave their small-input paths
	}
	c := GraphCase{N: n, Reps: 3}
	c.Reuse = rapid.IntRange(0, 2).Draw(t, "reuse") == 0
	// density chosen so that roughly half of the graphs are acyclic
	acyclicOnly := rapid.Bool().Draw(t, "acyclic_only")
	if n > 8 {
		// large graphs: acyclic, with a chain through all tasks so that the closure of task 0 is everything
		acyclicOnly = true
		for i := 0; i+1 < n; i++ {
			if rapid.IntRange(0, 3).Draw(t, "chain") != 0 {
				c.Edges = append(c.Edges, [2]int{i, i + 1})
			}
		}
	}
	p := rapid.IntRange(1, 4).Draw(t, "density")
	for i := 0; i < n; i++ {
		for j := 0; j < n; j++ {
			if acyclicOnly && j <= i {
				continue
			}
			if rapid.IntRange(0, 9).Draw(t, "edge") < p {
				c.Edges = append(c.Edges, [2]int{i, j})
			}
		}
	}
	pick := func(label string, prob int) []int {
		var out []int
		if rapid.IntRange(0, 9).Draw(t, label+"_any") >= prob {
			return nil
		}
		for i := 0; i < n; i++ {
			if rapid.IntRange(0, 3).Draw(t, label) == 0 {
				out = append(out, i)
			}
		}
		return out
	}
	c.Dup = pick("dup", 1)
	c.Undef = pick("undef", 1)
	c.FileDep = pick("filedep", 5)
	c.Fail = pick("fail", 2)
	c.TwoCmds = pick("twocmds", 5)
	c.Empty = pick("empty", 3)
	c.VarLike = pick("varlike", 3)
	if len(c.TwoCmds) > 0 && rapid.IntRange(0, 3).Draw(t, "busy") == 0 {
		c.Busy = []int{rapid.SampledFrom(c.TwoCmds).Draw(t, "busy_task")}
		c.BusyErr = rapid.SampledFrom([]string{"ETXTBSY", "EAGAIN", "EINTR", "EMFILE"}).Draw(t, "busy_err")
	}
	perm := rapid.Permutation(graphNames[:n]).Draw(t, "order")
	k := rapid.IntRange(1, 3).Draw(t, "nreq")
	c.Request = append([]string(nil), perm[:k]...)
	if n > 8 {
		c.Request = append([]string{graphNames[0]}, c.Request...)
	}
	if rapid.IntRange(0, 19).Draw(t, "requndef") == 0 {
		c.Request = append(c.Request, undefinedName)
	}
	return c
}

func TestGraphRapid(t *testing.T) {
	s := ev.Open(t, "C03")
	root := filepath.Join(workRoot(t), "proj")
	rp.Check(t, s, "graph", genGraph, func(c GraphCase) *rp.Fail {
		s.Class("space_rapid")
		if len(c.Fail) > 0 {
			s.Class("with_failing_command")
		}
		if len(c.FileDep) > 0 {
			s.Class("with_file_dependency")
		}
		if s.WantSample() {
			s.Sample(map[string]any{"spokfile": c.Source(), "request": c.Request})
		}
		return execGraph(s, root, c)
	})
}

// ---- C05 ----------------------------------------------------------------------------

func globPoolSize() int {
	if ev.Thorough() {
		return len(globPool)
	}
	return 10
}

func globEnumTotal() uint64 { return 1 << globPoolSize() }

func TestGlobEnum(t *testing.T) {
	s := ev.Open(t, "C05")
	root := filepath.Join(workRoot(t), "proj")
	lo, hi := ev.RangeFromEnv()
	seen := map[string]bool{}
	for idx := lo; idx < hi; idx++ {
		c := GlobCase{Patterns: globPatterns}
		for i := 0; i < globPoolSize(); i++ {
			if idx&(1<<i) != 0 {
				c.Paths = append(c.Paths, globPool[i])
			}
		}
		s.Progress(idx, nil)
		s.EvalN(2 * int64(len(c.Patterns)))
		s.Class("trees")
		if idx%257 == 0 {
			s.Sample(map[string]any{"tree": c.Paths, "patterns": len(c.Patterns)})
		}
		for _, via := range []bool{false, true} {
			c.ViaChain = via
			if f := execGlob(s, root, c); f != nil {
				if s.IsKnown(f.Sig) {
					s.Known(f.Sig, c)
					continue
				}
				if !seen[f.Sig] {
					seen[f.Sig] = true
					s.Violation("glob", f.Sig, f.Msg, f.Size, c)
				}
			}
		}
	}
	s.Extra("enum_pool", globPool[:globPoolSize()])
	if s.Failed() {
		t.Fatal("violations recorded")
	}
}

// TestGlobUnprivileged (run as uid 65534): trees with directories the user may not list, in every
// position of the walk (before, between and after the directories that hold matches, nested), one or
// two at a time. Patterns that match files by extension only (a locked directory that is itself
// matched is a file that cannot be hashed: C18's subject).
func TestGlobUnprivileged(t *testing.T) {
	s := ev.Open(t, "C05")
	if os.Geteuid() == 0 {
		s.Note("running as root: directory modes do not bind, the unprivileged glob leg was skipped")
		s.Eval()
		return
	}
	root := filepath.Join(workRoot(t), "proj")
	base := []string{"a.x", "src/main.x", "src/sub/b.x", "m/mid.x", "zz/late.x"}
	lockable := []string{"0-first", "locked", "n-between", "src/locked", "src/sub/deep", "zzz-last"}
	pats := []string{"*.x", "**/*.x", "src/*.x", "*/*.x", "src/**/*.x", "**/b.x", "{src,zz}/*.x"}
	seen := map[string]bool{}
	var idx uint64
	for mask := 1; mask < 1<<len(lockable); mask++ {
		if bits.OnesCount(uint(mask)) > 2 {
			continue
		}
		for _, via := range []bool{false, true} {
			c := GlobCase{Patterns: pats, Paths: append([]string(nil), base...), ViaChain: via}
			for i, d := range lockable {
				c.Paths = append(c.Paths, d+"/in.x") // exists in every tree; visible unless locked
				if mask&(1<<i) != 0 {
					c.Locked = append(c.Locked, d)
				}
			}
			idx++
			payload, _ := json.Marshal(c)
			s.Progress(idx, payload)
			s.EvalN(2 * int64(len(c.Patterns)))
			s.Class("trees_with_unlistable_directories")
			s.NonTrivial("locked:" + string(payload))
			if idx%7 == 0 {
				s.Sample(map[string]any{"tree": c.Paths, "mode_000": c.Locked})
			}
			if f := execGlob(s, root, c); f != nil && !seen[f.Sig] {
				seen[f.Sig] = true
				s.Violation("unpriv-glob", f.Sig, f.Msg, f.Size, c)
			}
		}
	}
	if s.Failed() {
		t.Fatal("violations recorded")
	}
}

// TestGlobLinks: every non-empty subset of the link pool over three base trees.
func TestGlobLinks(t *testing.T) {
	s := ev.Open(t, "C05")
	root := filepath.Join(workRoot(t), "proj")
	bases := [][]string{nil, {"a.x", "src/a.x", ".env", "src/.h.x"}, globPool[:globPoolSize()], {"a.spok.x", "docs/plan.spok.x", "src/a.x", "z.x"}}
	seen := map[string]bool{}
	var idx uint64
	for mask := 1; mask < 1<<len(linkPool); mask++ {
		for _, base := range bases {
			for _, via := range []bool{false, true} {
				c := GlobCase{Patterns: globPatterns, Paths: base, ViaChain: via, Links: map[string]string{}}
				for i, l := range linkPool {
					if mask&(1<<i) != 0 {
						c.Links[l[0]] = l[1]
					}
				}
				idx++
				payload, _ := json.Marshal(c)
				s.Progress(idx, payload)
				s.EvalN(2 * int64(len(c.Patterns)))
				s.Class("trees")
				if idx%17 == 0 {
					s.Sample(map[string]any{"tree": c.Paths, "links": c.Links})
				}
				if f := execGlob(s, root, c); f != nil {
					if s.IsKnown(f.Sig) {
						s.Known(f.Sig, c)
						continue
					}
					if !seen[f.Sig] {
						seen[f.Sig] = true
						s.Violation("glob", f.Sig, f.Msg, f.Size, c)
					}
				}
			}
		}
	}
	if s.Failed() {
		t.Fatal("violations recorded")
	}
}

var segNames = []string{"a", "b", "src", "sub", ".h", ".d", "-x", "z", "lib", "Z"}
var fileNames = []string{"a.x", "b.x", ".h.x", "c.y", "-f.x", "z.x", "m", ".env", "a.x.bak", "[d]raft.x", "q*r.x", "dx.x", "a.spok.x", "ci.spokfile.x"}

func genGlobCase(t *rapid.T) GlobCase {
	c := GlobCase{Patterns: globPatterns}
	n := rapid.IntRange(0, 14).Draw(t, "nfiles")
	files, dirs := map[string]bool{}, map[string]bool{}
	free := func(segs []string) bool { // no proper ancestor is a file
		for i := 1; i < len(segs); i++ {
			if files[strings.Join(segs[:i], "/")] {
				return false
			}
		}
		return true
	}
	markDirs := func(segs []string) {
		for i := 1; i <= len(segs); i++ {
			dirs[strings.Join(segs[:i], "/")] = true
		}
	}
	for i := 0; i < n; i++ {
		depth := rapid.IntRange(0, 3).Draw(t, "depth")
		var segs []string
		for d := 0; d < depth; d++ {
			segs = append(segs, rapid.SampledFrom(segNames).Draw(t, "seg"))
		}
		if rapid.IntRange(0, 9).Draw(t, "emptydir") == 0 && depth > 0 {
			p := strings.Join(segs, "/")
			if free(segs) && !files[p] && !dirs[p] {
				markDirs(segs)
				c.Paths = append(c.Paths, p+"/")
			}
			continue
		}
		all := append(append([]string(nil), segs...), rapid.SampledFrom(fileNames).Draw(t, "file"))
		p := strings.Join(all, "/")
		if free(all) && !files[p] && !dirs[p] {
			files[p] = true
			markDirs(segs)
			c.Paths = append(c.Paths, p)
		}
	}
	c.ViaChain = rapid.Bool().Draw(t, "via_chain")
	c.Dir = genDir(t)
	if rapid.IntRange(0, 2).Draw(t, "with_links") == 0 {
		c.Links = map[string]string{}
		nl := rapid.IntRange(1, 3).Draw(t, "nlinks")
		for i := 0; i < nl; i++ {
			depth := rapid.IntRange(0, 2).Draw(t, "ldepth")
			var segs []string
			for d := 0; d < depth; d++ {
				segs = append(segs, rapid.SampledFrom(segNames).Draw(t, "lseg"))
			}
			kind := rapid.SampledFrom([]string{"file", "dir"}).Draw(t, "lkind")
			name := rapid.SampledFrom(fileNames).Draw(t, "lname")
			if kind == "dir" {
				name = rapid.SampledFrom(segNames).Draw(t, "ldname")
			}
			all := append(append([]string(nil), segs...), name)
			p := strings.Join(all, "/")
			if free(all) && !files[p] && !dirs[p] {
				files[p] = true // nothing else may be placed at or below a link
				markDirs(segs)
				c.Links[p] = kind
			}
		}
	}
	return c
}

func TestGlobRapid(t *testing.T) {
	s := ev.Open(t, "C05")
	root := filepath.Join(workRoot(t), "proj")
	rp.Check(t, s, "glob", genGlobCase, func(c GlobCase) *rp.Fail {
		s.Class("space_rapid_trees")
		if s.WantSample() {
			s.Sample(map[string]any{"tree": c.Paths})
		}
		return execGlob(s, root, c)
	})
}
