// Package runinproc is engine E2: properties decided by loading spokfiles with file.New and
// running them with SpokFile.Run against a recording shell.Runner (C01 C02 C14 cache model,
// C03 dependency graphs, C05 glob expansion).
package runinproc

import (
	"errors"
	"fmt"
	"os"
	"path/filepath"
	"sort"
	"strings"
	"syscall"

	"github.com/FollowTheProcess/spok/file"
	"github.com/FollowTheProcess/spok/iostream"
	"github.com/FollowTheProcess/spok/parser"
	"github.com/FollowTheProcess/spok/shell"
	"github.com/FollowTheProcess/spok/task"

	"verif/ev"
	"verif/model"
	"verif/rp"
)

type nopLogger struct{}

func (nopLogger) Sync() error          { return nil }
func (nopLogger) Debug(string, ...any) {}

// TaskSpec is one task of a generated cache-model program.
type TaskSpec struct {
	// IdentsFirst: the task dependencies are written in front of the file dependencies
	IdentsFirst bool     `json:"idents_first,omitempty"`
	Name        string   `json:"name"`
	Files       []string `json:"files,omitempty"` // literal file dependencies (relative)
	Globs       []string `json:"globs,omitempty"`
	Deps        []string `json:"deps,omitempty"` // task dependencies
	NCmds       int      `json:"ncmds"`
	// Writes are side effects of the task's first command: it rewrites the content of existing
	// files, which may be dependencies of other tasks of the same run. A task that rewrites one
	// of its OWN dependencies is not judged itself (whether "its inputs" are those before or
	// after its own run is left open); the other tasks still are.
	Writes []FileWrite `json:"writes,omitempty"`
}

// FileWrite is a side effect of a task command.
type FileWrite struct {
	File    string `json:"file"`
	Content string `json:"content"`
}

// Step is one action of a history.
type Step struct {
	// keep (not part of the case): when set, the loaded SpokFile is kept there and used again by the next run
	keep **file.SpokFile
	// Cwd (run steps): the working directory of the process while spok runs — one of three scratch
	// directories beside the project. Where spok is started from has no bearing on the project's cache.
	Cwd  int    `json:"cwd,omitempty"`
	Op   string `json:"op"` // write revert delete swap run rmcache
	File string `json:"file,omitempty"`
	// File2 (swap): the two names exchange what they refer to (mv a tmp; mv b a; mv tmp b) - two regular
	// files, or two symbolic links that thereby exchange their targets
	File2   string         `json:"file2,omitempty"`
	Content string         `json:"content,omitempty"`
	Tasks   []string       `json:"tasks,omitempty"`
	Force   bool           `json:"force,omitempty"`
	Fail    map[string]int `json:"fail,omitempty"`  // task -> index of its failing command
	Whole   bool           `json:"whole,omitempty"` // rmcache: remove .spok entirely, else only cache.json
	// Abort: tasks whose first command makes the runner itself return an error (what a command
	// that is not valid shell syntax does), so that the whole run stops with an error at that task.
	Abort []string `json:"abort,omitempty"`
	// Busy/BusyErr (graph cases): see GraphCase.Busy
	Busy    []string `json:"busy,omitempty"`
	BusyErr string   `json:"busy_err,omitempty"`
}

// CacheCase is a program, an initial tree and a history.
type CacheCase struct {
	// Junk: after the first run step, files that an interrupted or foreign process may have left in
	// the cache directory appear there (cache.json.tmp, cache.json.bak, cache.json~, lock); they are
	// nobody's business and change nothing
	Junk bool `json:"junk,omitempty"`
	// Dir names the directory holding the spokfile ("" = proj)
	Dir   string            `json:"dir,omitempty"`
	Tasks []TaskSpec        `json:"tasks"`
	Init  map[string]string `json:"init"`
	Steps []Step            `json:"steps"`
	// Late: tasks the spokfile does not have at first; each step "grow" adds the next one at the end
	// of the file (spokfiles are edited between runs: what was recorded for the tasks that were there
	// before still counts)
	Late []TaskSpec `json:"late,omitempty"`
	// Links: symbolic links (name -> target, relative to the project) created before the first
	// step; a dependency path that is a link denotes the content seen through it.
	Links map[string]string `json:"links,omitempty"`
}

// Source renders the spokfile of the case.
func (c CacheCase) Source() string {
	var b strings.Builder
	for _, t := range c.Tasks {
		var args []string
		for _, f := range t.Files {
			args = append(args, `"`+f+`"`)
		}
		for _, g := range t.Globs {
			args = append(args, `"`+g+`"`)
		}
		if t.IdentsFirst {
			args = append(append([]string(nil), t.Deps...), args...)
		} else {
			args = append(args, t.Deps...)
		}
		fmt.Fprintf(&b, "task %s(%s) {\n", t.Name, strings.Join(args, ", "))
		for i := 0; i < t.NCmds; i++ {
			fmt.Fprintf(&b, "    run %s %d\n", t.Name, i)
		}
		b.WriteString("}\n\n")
	}
	return b.String()
}

type call struct {
	task   string
	status int
}

type recorder struct {
	calls []call
	count map[string]int
	fail  map[string]int
	// onStart is called when the first command of a task runs (side effects, snapshots)
	onStart func(task string)
	abort   map[string]bool
	// busy: tasks whose second command cannot be started at the first attempt (busyErr); first counts
	// how often a task's first command text was run; busied: the error was handed out
	busy    map[string]bool
	busyErr error
	first   map[string]int
	busied  bool
	tried   map[string]bool
}

func (r *recorder) Run(cmd string, _ iostream.IOStream, taskName string, _ []string) (shell.Result, error) {
	idx := r.count[taskName]
	if r.busy[taskName] {
		if strings.HasSuffix(cmd, " 0") {
			r.first[taskName]++
		} else if !r.tried[taskName] {
			r.tried[taskName], r.busied = true, true
			r.calls = append(r.calls, call{task: taskName, status: -2})
			return shell.Result{}, &os.PathError{Op: "fork/exec", Path: "./tool", Err: r.busyErr}
		}
	}
	r.count[taskName]++
	if idx == 0 && r.onStart != nil {
		r.onStart(taskName)
	}
	if idx == 0 && r.abort[taskName] {
		r.calls = append(r.calls, call{task: taskName, status: -1})
		return shell.Result{}, errors.New("injected: command is not valid shell syntax")
	}
	status := 0
	if fi, ok := r.fail[taskName]; ok && fi == idx {
		status = 1
	}
	r.calls = append(r.calls, call{task: taskName, status: status})
	return shell.Result{Cmd: cmd, Status: status}, nil
}

func (r *recorder) succeeded(t string, ncmds int) bool {
	if r.count[t] != ncmds {
		return false
	}
	for _, c := range r.calls {
		if c.task == t && c.status != 0 {
			return false
		}
	}
	return true
}

// snapshot is the reference notion of "the files named by a task's file and glob
// dependencies (set of paths and their contents)".
type snapshot struct {
	key     string
	nfiles  int
	missing bool // a literal dependency does not exist
}

func takeSnapshot(root string, entries []model.Entry, t TaskSpec) snapshot {
	set := map[string]string{}
	missing := false
	for _, f := range t.Files {
		b, err := os.ReadFile(filepath.Join(root, filepath.FromSlash(f)))
		if err != nil {
			missing = true
			set[f] = "\x01missing"
			continue
		}
		set[f] = string(b)
	}
	for _, g := range t.Globs {
		matched := model.GlobFiles(entries, g)
		read := model.ReadAll(root, matched)
		for _, rel := range matched {
			if content, ok := read[rel]; ok {
				set[rel] = content
			} else {
				// a matched path that cannot be read (dangling link) is still part of the set of paths
				set[rel] = "\x01unreadable"
				missing = true
			}
		}
	}
	keys := make([]string, 0, len(set))
	for k := range set {
		keys = append(keys, k)
	}
	sort.Strings(keys)
	var b strings.Builder
	for _, k := range keys {
		b.WriteString(k + "\x00" + set[k] + "\x02")
	}
	return snapshot{key: b.String(), nfiles: len(keys), missing: missing}
}

type taskState struct {
	last       *snapshot // inputs at the last observed successful completion (nil: none / cache removed)
	lastForced bool
	tainted    bool // a run of the task failed after that success
	unknown    bool // a command-less task may have completed unobserved
}

const linkMarker = "\x01link:"

type fileState struct {
	exists  bool
	content string
}

// runResult is what one run step produced.
type runResult struct {
	results task.Results
	err     error
	rec     *recorder
}

func doRun(root, src string, st Step, onStart ...func(string)) runResult {
	rec := &recorder{count: map[string]int{}, fail: st.Fail, abort: map[string]bool{}, busy: map[string]bool{}, first: map[string]int{}, tried: map[string]bool{}}
	for _, n := range st.Busy {
		rec.busy[n] = true
	}
	rec.busyErr = map[string]error{"ETXTBSY": syscall.ETXTBSY, "EAGAIN": syscall.EAGAIN, "EINTR": syscall.EINTR, "EMFILE": syscall.EMFILE}[st.BusyErr]
	if rec.busyErr == nil {
		rec.busyErr = syscall.ETXTBSY
	}
	for _, a := range st.Abort {
		rec.abort[a] = true
	}
	if len(onStart) > 0 {
		rec.onStart = onStart[0]
	}
	tree, err := parser.New(src).Parse()
	if err != nil {
		return runResult{err: fmt.Errorf("harness: generated spokfile does not parse: %w", err), rec: rec}
	}
	var sf *file.SpokFile
	if st.keep != nil && *st.keep != nil {
		sf = *st.keep // the same loaded spokfile is run again (a long-lived caller of the API)
	} else {
		sf, err = file.New(tree, root, nopLogger{})
		if err != nil {
			return runResult{err: fmt.Errorf("harness: generated spokfile does not load: %w", err), rec: rec}
		}
		if st.keep != nil {
			*st.keep = sf
		}
	}
	cwd := filepath.Join(filepath.Dir(root), fmt.Sprintf("started-in-%d", st.Cwd))
	if err := os.MkdirAll(cwd, 0o755); err == nil {
		_ = os.Chdir(cwd)
	}
	res, err := sf.Run(iostream.Null(), rec, st.Force, st.Tasks...)
	return runResult{results: res, err: err, rec: rec}
}

func writeFile(root, rel, content string) error {
	p := filepath.Join(root, filepath.FromSlash(rel))
	if err := os.MkdirAll(filepath.Dir(p), 0o755); err != nil {
		return err
	}
	return os.WriteFile(p, []byte(content), 0o644)
}

// execCache replays a history against spok and the reference model and evaluates the
// predicate of property id (C01, C02 or C14) after every run step.
func execCache(id string, s *ev.Shard, root string, c CacheCase) *rp.Fail {
	if c.Dir != "" {
		root = filepath.Join(filepath.Dir(root), c.Dir)
	}
	_ = os.RemoveAll(root)
	if err := os.MkdirAll(root, 0o755); err != nil {
		return &rp.Fail{Sig: "harness", Msg: err.Error()}
	}
	defer os.RemoveAll(root)
	for k := 0; k < 3; k++ {
		_ = os.RemoveAll(filepath.Join(filepath.Dir(root), fmt.Sprintf("started-in-%d", k)))
	}
	cur := map[string]fileState{}
	prev := map[string]fileState{}
	for f, content := range c.Init {
		if err := writeFile(root, f, content); err != nil {
			return &rp.Fail{Sig: "harness", Msg: err.Error()}
		}
		cur[f] = fileState{exists: true, content: content}
	}
	for name, target := range c.Links {
		p := filepath.Join(root, filepath.FromSlash(name))
		if err := os.MkdirAll(filepath.Dir(p), 0o755); err != nil {
			return &rp.Fail{Sig: "harness", Msg: err.Error()}
		}
		if err := os.Symlink(target, p); err != nil {
			return &rp.Fail{Sig: "harness", Msg: err.Error()}
		}
		if _, isFile := c.Init[target]; !isFile {
			// a link that leads nowhere is a file-system object of its own: it can be deleted and put back
			cur[name] = fileState{exists: true, content: linkMarker + target}
		}
	}
	links := map[string]string{} // as they are now (a swap exchanges targets)
	for name, target := range c.Links {
		links[name] = target
	}
	active := append([]TaskSpec(nil), c.Tasks...)
	late := append([]TaskSpec(nil), c.Late...)
	src := c.Source()
	specs := map[string]TaskSpec{}
	for _, t := range active {
		specs[t.Name] = t
	}
	state := map[string]*taskState{}
	for _, t := range active {
		state[t.Name] = &taskState{}
	}
	size := len(c.Steps) + len(c.Tasks)

	var (
		runs, fileActsBetween, sawSkip, multi int
		fileActSinceRun                       bool
		forcedUpToDate, forcedThenEdit        bool
		pendingForcedEdit                     map[string]bool = map[string]bool{}
	)

	apply := func(f string, ns fileState) error {
		old := cur[f]
		if old == ns {
			return nil
		}
		prev[f] = old
		cur[f] = ns
		p := filepath.Join(root, filepath.FromSlash(f))
		if !ns.exists {
			err := os.Remove(p)
			if os.IsNotExist(err) {
				return nil
			}
			return err
		}
		if strings.HasPrefix(ns.content, linkMarker) {
			_ = os.Remove(p)
			return os.Symlink(strings.TrimPrefix(ns.content, linkMarker), p)
		}
		if strings.HasPrefix(old.content, linkMarker) {
			_ = os.Remove(p) // writing replaces the link, it does not write through it
		}
		return writeFile(root, f, ns.content)
	}

	for i, st := range c.Steps {
		switch st.Op {
		case "write":
			if err := apply(st.File, fileState{exists: true, content: st.Content}); err != nil {
				return &rp.Fail{Sig: "harness", Msg: err.Error()}
			}
			fileActSinceRun = true
		case "delete":
			if err := apply(st.File, fileState{}); err != nil {
				return &rp.Fail{Sig: "harness", Msg: err.Error()}
			}
			fileActSinceRun = true
		case "revert":
			ps, changed := prev[st.File]
			if !changed {
				continue // never changed so far: nothing to revert to
			}
			if err := apply(st.File, ps); err != nil {
				return &rp.Fail{Sig: "harness", Msg: err.Error()}
			}
			fileActSinceRun = true
		case "swap":
			a, b2 := st.File, st.File2
			ta, aLink := links[a]
			tb, bLink := links[b2]
			ca, cb := cur[a], cur[b2]
			switch {
			case aLink && bLink:
				links[a], links[b2] = tb, ta
			case !aLink && !bLink && ca.exists && cb.exists && !strings.HasPrefix(ca.content, linkMarker) && !strings.HasPrefix(cb.content, linkMarker) && filepath.Dir(a) == filepath.Dir(b2):
				prev[a], prev[b2] = ca, cb
				cur[a], cur[b2] = cb, ca
			default:
				continue // not a pair this step applies to
			}
			pa, pb := filepath.Join(root, filepath.FromSlash(a)), filepath.Join(root, filepath.FromSlash(b2))
			tmp := pa + ".swapping"
			for _, mv := range [][2]string{{pa, tmp}, {pb, pa}, {tmp, pb}} {
				if err := os.Rename(mv[0], mv[1]); err != nil {
					return &rp.Fail{Sig: "harness", Msg: err.Error()}
				}
			}
			fileActSinceRun = true
		case "grow":
			if len(late) == 0 {
				continue
			}
			nt := late[0]
			late = late[1:]
			active = append(active, nt)
			specs[nt.Name] = nt
			state[nt.Name] = &taskState{}
			grown := c
			grown.Tasks = active
			src = grown.Source()
		case "rmcache":
			if st.Whole {
				_ = os.RemoveAll(filepath.Join(root, ".spok"))
			} else {
				_ = os.Remove(filepath.Join(root, ".spok", "cache.json"))
			}
			for _, ts := range state {
				ts.last, ts.tainted, ts.unknown = nil, false, false
			}
		case "run":
			undefined := false
			for _, n := range st.Tasks {
				if _, ok := specs[n]; !ok {
					undefined = true
				}
			}
			if undefined {
				continue // asks for a task the spokfile does not have yet: not a run of these histories
			}
			entries, err := model.Walk(root)
			if err != nil {
				return &rp.Fail{Sig: "harness", Msg: err.Error()}
			}
			// Snapshots are taken per "epoch": a task's side effects on other tasks' dependency
			// files start a new epoch, and every task is judged against the files as they were
			// when spok looked at it (its position in the run order).
			takeAll := func(entries []model.Entry) map[string]snapshot {
				m := map[string]snapshot{}
				for _, t := range active {
					m[t.Name] = takeSnapshot(root, entries, t)
				}
				return m
			}
			epochs := []map[string]snapshot{takeAll(entries)}
			startEpoch := map[string]int{}
			selfModified := map[string]bool{}
			var hookErr error
			rr := doRun(root, src, st, func(name string) {
				startEpoch[name] = len(epochs) - 1
				sp := specs[name]
				if len(sp.Writes) == 0 {
					return
				}
				for _, w := range sp.Writes {
					// the file itself and every link that leads to it
					written := []string{w.File}
					for ln, target := range links {
						if target == w.File {
							written = append(written, ln)
						} else if strings.HasPrefix(w.File, target+"/") {
							written = append(written, ln+strings.TrimPrefix(w.File, target)) // below a linked directory
						}
					}
					for _, wf := range written {
						for _, l := range sp.Files {
							if l == wf && cur[w.File].exists && cur[w.File].content != w.Content {
								selfModified[name] = true
							}
						}
						for _, g := range sp.Globs {
							if model.Match(g, wf) && cur[w.File].exists && cur[w.File].content != w.Content {
								selfModified[name] = true
							}
						}
					}
					// only the content of existing files is rewritten: which files a glob denotes is
					// fixed per invocation (spok expands globs once per run), and files appearing in
					// the middle of a run are outside the histories the properties quantify over
					if !cur[w.File].exists {
						continue
					}
					if err := apply(w.File, fileState{exists: true, content: w.Content}); err != nil {
						hookErr = err
					}
				}
				if ents, err := model.Walk(root); err == nil {
					epochs = append(epochs, takeAll(ents))
				} else {
					hookErr = err
				}
			})
			if hookErr != nil {
				return &rp.Fail{Sig: "harness", Msg: hookErr.Error()}
			}
			// the epoch in force when each task was decided
			now := map[string]snapshot{}
			cur := 0
			decided := map[string]bool{}
			for _, r := range rr.results {
				if e, ok := startEpoch[r.Task]; ok {
					cur = e
				}
				now[r.Task] = epochs[cur][r.Task]
				decided[r.Task] = true
				if _, ok := startEpoch[r.Task]; ok && len(specs[r.Task].Writes) > 0 {
					cur++
				}
			}
			for _, t := range active {
				if decided[t.Name] {
					continue
				}
				if e, ok := startEpoch[t.Name]; ok {
					now[t.Name] = epochs[e][t.Name]
				} else {
					now[t.Name] = epochs[len(epochs)-1][t.Name]
				}
			}
			if rr.err != nil && strings.HasPrefix(rr.err.Error(), "harness:") {
				return &rp.Fail{Sig: "harness", Msg: rr.err.Error()}
			}
			runs++
			if c.Junk && runs == 1 {
				for _, j := range []string{"cache.json.tmp", "cache.json.bak", "cache.json~", "lock", ".cache.json.swp"} {
					_ = os.WriteFile(filepath.Join(root, ".spok", j), []byte("{}"), 0o644)
				}
			}
			if runs >= 2 && fileActSinceRun {
				fileActsBetween++
			}
			fileActSinceRun = false
			if len(rr.results) >= 2 {
				multi++
			}
			reported := map[string]task.Result{}
			for _, r := range rr.results {
				reported[r.Task] = r
				if r.Skipped {
					sawSkip++
				}
			}
			where := fmt.Sprintf("step %d (run %v force=%v fail=%v abort=%v)", i, st.Tasks, st.Force, st.Fail, st.Abort)

			// ---- predicates -------------------------------------------------------
			for _, r := range rr.results {
				ts, spec := state[r.Task], specs[r.Task]
				if ts == nil {
					continue
				}
				snap := now[r.Task]
				if r.Skipped {
					if rr.rec.count[r.Task] > 0 && (id == "C01" || id == "C14") {
						return &rp.Fail{Sig: "skipped-but-executed", Size: size, Msg: fmt.Sprintf("%s: task %s is reported skipped but %d of its commands ran", where, r.Task, rr.rec.count[r.Task])}
					}
					if st.Force && id == "C14" {
						return &rp.Fail{Sig: "forced-run-skipped", Size: size, Msg: fmt.Sprintf("%s: task %s reported skipped in a forced run", where, r.Task)}
					}
					if len(spec.Files)+len(spec.Globs) == 0 && id == "C02" {
						return &rp.Fail{Sig: "skipped-without-file-deps", Size: size, Msg: fmt.Sprintf("%s: task %s has no file dependency but was skipped", where, r.Task)}
					}
					wrong := ""
					switch {
					case ts.unknown:
					case ts.last == nil:
						wrong = "it never completed successfully since the cache was (re)created"
					case ts.last.key != snap.key:
						wrong = "its dependency files differ from those of its last successful completion"
					}
					if wrong != "" {
						if id == "C01" {
							return &rp.Fail{Sig: "wrong-skip", Size: size, Msg: fmt.Sprintf("%s: task %s skipped although %s", where, r.Task, wrong)}
						}
						if id == "C14" && ts.last != nil && ts.lastForced {
							return &rp.Fail{Sig: "wrong-skip-after-force", Size: size, Msg: fmt.Sprintf("%s: task %s (last success was a forced run) skipped although %s", where, r.Task, wrong)}
						}
					}
				}
			}
			if id == "C02" && !st.Force {
				for _, t := range active {
					ts, snap := state[t.Name], now[t.Name]
					executed := rr.rec.count[t.Name] > 0
					if t.NCmds == 0 {
						r, ok := reported[t.Name]
						executed = ok && !r.Skipped
					}
					if !executed || ts.unknown || ts.tainted || ts.last == nil {
						continue
					}
					if len(t.Files)+len(t.Globs) == 0 || snap.nfiles == 0 || snap.missing {
						continue
					}
					if ts.last.key == snap.key {
						return &rp.Fail{Sig: "needless-rerun", Size: size, Msg: fmt.Sprintf("%s: task %s ran again although its dependency files are exactly those of its last successful completion and the cache was not removed", where, t.Name)}
					}
				}
			}
			if id == "C14" && st.Force && rr.err != nil && len(st.Fail) == 0 && len(st.Abort) == 0 {
				// nothing was made to fail: whatever the files and the cache look like, a forced run runs
				return &rp.Fail{Sig: "forced-run-refused", Size: size, Msg: fmt.Sprintf("%s: the forced run stopped with an error although no command failed: %v", where, rr.err)}
			}
			if id == "C14" && st.Force && rr.err == nil && len(st.Fail) == 0 {
				for _, name := range st.Tasks {
					if _, ok := reported[name]; !ok {
						return &rp.Fail{Sig: "forced-task-not-reported", Size: size, Msg: fmt.Sprintf("%s: requested task %s missing from the results of a forced run", where, name)}
					}
				}
				for _, r := range rr.results {
					if spec, ok := specs[r.Task]; ok && rr.rec.count[r.Task] != spec.NCmds {
						return &rp.Fail{Sig: "forced-task-not-executed", Size: size, Msg: fmt.Sprintf("%s: task %s executed %d of its %d commands in a forced run", where, r.Task, rr.rec.count[r.Task], spec.NCmds)}
					}
				}
			}

			// ---- non-triviality bookkeeping for C14 --------------------------------
			if st.Force {
				for _, name := range st.Tasks {
					if ts := state[name]; ts != nil && ts.last != nil && ts.last.key == now[name].key {
						forcedUpToDate = true
					}
					pendingForcedEdit[name] = true
				}
			} else if fileActsBetween > 0 {
				for _, name := range st.Tasks {
					if pendingForcedEdit[name] {
						forcedThenEdit = true
					}
				}
			}

			// ---- model update from the recorder's observations -----------------------
			for _, t := range active {
				ts := state[t.Name]
				snap := now[t.Name]
				if selfModified[t.Name] {
					ts.unknown = true
					continue
				}
				switch {
				case t.NCmds > 0 && rr.rec.count[t.Name] > 0:
					if rr.rec.succeeded(t.Name, t.NCmds) {
						sn := snap
						ts.last, ts.tainted, ts.unknown, ts.lastForced = &sn, false, false, st.Force
					} else {
						ts.tainted = true
					}
				case t.NCmds == 0:
					if r, ok := reported[t.Name]; ok && !r.Skipped {
						sn := snap
						ts.last, ts.tainted, ts.unknown, ts.lastForced = &sn, false, false, st.Force
					} else if rr.err != nil {
						ts.unknown = true
					}
				}
			}
		}
	}

	if s != nil {
		s.ClassN("runs", int64(runs))
		if sawSkip > 0 {
			s.Class("history_with_skip")
		}
		nt := false
		switch id {
		case "C14":
			nt = forcedUpToDate || forcedThenEdit
			if forcedUpToDate {
				s.Class("forced_on_up_to_date")
			}
			if forcedThenEdit {
				s.Class("forced_then_edit_then_unforced")
			}
		default:
			nt = runs >= 2 && fileActsBetween >= 1 && (sawSkip > 0 || multi > 0)
		}
		if nt {
			s.NonTrivial(src + "\x00" + fmt.Sprint(c.Init) + fmt.Sprint(c.Steps))
		}
	}
	return nil
}
