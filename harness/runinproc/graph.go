package runinproc

import (
	"fmt"
	"github.com/FollowTheProcess/spok/file"
	"os"
	"sort"
	"strings"

	"verif/ev"
	"verif/rp"
)

// GraphCase is a dependency graph written as a spokfile plus a request list.
type GraphCase struct {
	// Reuse: the repetitions run the same loaded SpokFile again instead of loading the text anew
	Reuse   bool     `json:"reuse,omitempty"`
	N       int      `json:"n"`
	Edges   [][2]int `json:"edges"`              // [i,j]: task i depends on task j
	Dup     []int    `json:"dup,omitempty"`      // tasks defined a second time
	Undef   []int    `json:"undef,omitempty"`    // tasks that also depend on an undefined name
	FileDep []int    `json:"file_dep,omitempty"` // tasks with a file dependency (skipped on the second run)
	Fail    []int    `json:"fail,omitempty"`     // tasks whose (first) command fails
	TwoCmds []int    `json:"two_cmds,omitempty"` // tasks with two commands
	Empty   []int    `json:"empty,omitempty"`    // tasks whose (first) definition has an empty body
	VarLike []int    `json:"var_like,omitempty"` // tasks for which a global variable of the same name exists (value: an existing file)
	Request []string `json:"request"`
	Reps    int      `json:"reps"`
	// Busy: tasks (with two commands) whose second command cannot be started at the first attempt:
	// the runner returns the operating system's error BusyErr (ETXTBSY, EAGAIN, EINTR, EMFILE). spok
	// may give up on the run or go on; no command runs a second time
	Busy    []int  `json:"busy,omitempty"`
	BusyErr string `json:"busy_err,omitempty"`
}

// Task names: underscores are identifier characters, so names are chosen such that different
// (dependency, task) pairs concatenate to the same text: "a_a"+"_"+"a" == "a"+"_"+"a_a" and
// "b_c"+"_"+"d" == "b"+"_"+"c_d".
// The first eight names are chosen so that different (dependency, task) pairs concatenate alike; the
// further ones (for the occasional large graph) sort by index, so that an order by name is the reverse
// of the run order of an acyclic graph whose tasks depend on tasks of higher index.
var graphNames = func() []string {
	names := []string{"a", "a_a", "d", "b_c", "c_d", "b", "e", "e_f"}
	for i := 8; i < 40; i++ {
		names = append(names, "t"+string(rune('a'+(i-8)/2%26))+string(rune('a'+i%26))+"x")
	}
	return names
}()

const undefinedName = "zz"

func has(xs []int, x int) bool {
	for _, y := range xs {
		if y == x {
			return true
		}
	}
	return false
}

func (c GraphCase) deps(i int) []int {
	var out []int
	for _, e := range c.Edges {
		if e[0] == i {
			out = append(out, e[1])
		}
	}
	return out
}

// Source renders the spokfile.
func (c GraphCase) Source() string {
	var b strings.Builder
	for _, i := range c.VarLike {
		fmt.Fprintf(&b, "%s := \"in.txt\"\n", graphNames[i])
	}
	def := func(i int, second bool) {
		var args []string
		if has(c.FileDep, i) {
			args = append(args, `"in.txt"`)
		}
		for _, j := range c.deps(i) {
			args = append(args, graphNames[j])
		}
		if has(c.Undef, i) {
			args = append(args, undefinedName)
		}
		fmt.Fprintf(&b, "task %s(%s) {\n", graphNames[i], strings.Join(args, ", "))
		if second || !has(c.Empty, i) {
			fmt.Fprintf(&b, "    run %s 0\n", graphNames[i])
			if has(c.TwoCmds, i) {
				fmt.Fprintf(&b, "    run %s 1\n", graphNames[i])
			}
		}
		b.WriteString("}\n\n")
	}
	for i := 0; i < c.N; i++ {
		def(i, false)
	}
	for _, i := range c.Dup {
		def(i, true)
	}
	return b.String()
}

// reference: reachability, undefined names and cycles over the declared edges.
type graphRef struct {
	closure   map[int]bool
	undefined bool // a requested or reachable name is undefined
	cycle     bool // a cycle among the tasks reachable from the request
	anyCycle  bool // a cycle anywhere in the file
}

func (c GraphCase) reference() graphRef {
	ref := graphRef{closure: map[int]bool{}}
	index := map[string]int{}
	for i := 0; i < c.N; i++ {
		index[graphNames[i]] = i
	}
	var visit func(i int)
	visit = func(i int) {
		if ref.closure[i] {
			return
		}
		ref.closure[i] = true
		if has(c.Undef, i) {
			ref.undefined = true
		}
		for _, j := range c.deps(i) {
			visit(j)
		}
	}
	for _, r := range c.Request {
		i, ok := index[r]
		if !ok {
			ref.undefined = true
			continue
		}
		visit(i)
	}
	cyc := func(within func(int) bool) bool {
		color := make([]int, c.N)
		var dfs func(i int) bool
		dfs = func(i int) bool {
			color[i] = 1
			for _, j := range c.deps(i) {
				if !within(j) {
					continue
				}
				if color[j] == 1 || (color[j] == 0 && dfs(j)) {
					return true
				}
			}
			color[i] = 2
			return false
		}
		for i := 0; i < c.N; i++ {
			if within(i) && color[i] == 0 && dfs(i) {
				return true
			}
		}
		return false
	}
	ref.cycle = cyc(func(i int) bool { return ref.closure[i] })
	ref.anyCycle = cyc(func(int) bool { return true })
	return ref
}

func execGraph(s *ev.Shard, root string, c GraphCase) *rp.Fail {
	_ = os.RemoveAll(root)
	if err := os.MkdirAll(root, 0o755); err != nil {
		return &rp.Fail{Sig: "harness", Msg: err.Error()}
	}
	defer os.RemoveAll(root)
	if err := writeFile(root, "in.txt", "0"); err != nil {
		return &rp.Fail{Sig: "harness", Msg: err.Error()}
	}
	src := c.Source()
	ref := c.reference()
	size := c.N*10 + len(c.Edges) + len(c.Request) + len(c.Dup) + len(c.Undef) + len(c.Fail) + len(c.FileDep) + len(c.Empty) + len(c.VarLike)
	index := map[string]int{}
	for i := 0; i < c.N; i++ {
		index[graphNames[i]] = i
	}
	fail := map[string]int{}
	for _, i := range c.Fail {
		fail[graphNames[i]] = 0
	}
	mustErr := ref.undefined || len(c.Dup) > 0 || ref.cycle
	reps := c.Reps
	if reps < 1 {
		reps = 1
	}
	var kept *file.SpokFile
	for rep := 0; rep < reps; rep++ {
		st := Step{Op: "run", Tasks: c.Request, Fail: fail}
		if c.Reuse {
			st.keep = &kept
		}
		var busy []string
		for _, i := range c.Busy {
			if has(c.TwoCmds, i) && !has(c.Empty, i) && !has(c.Fail, i) {
				busy = append(busy, graphNames[i])
			}
		}
		st.Busy, st.BusyErr = busy, c.BusyErr
		rr := doRun(root, src, st)
		if len(busy) > 0 {
			for _, n := range busy {
				// the command that could not be started may be tried again; the one before it ran once
				if rr.rec.first[n] > 1 {
					return &rp.Fail{Sig: "command-ran-twice", Size: size, Msg: fmt.Sprintf("request %v, repetition %d: the second command of task %s could not be started at first (%s); its first command ran %d times: %v", c.Request, rep, n, c.BusyErr, rr.rec.first[n], rr.rec.calls)}
				}
			}
			if s != nil && rr.rec.busied {
				s.Class("runner_error_on_second_command")
			}
			if rr.rec.busied {
				continue // giving up on the run or carrying on are both in order
			}
		}
		if rr.err != nil && strings.HasPrefix(rr.err.Error(), "harness: generated spokfile does not parse") {
			return &rp.Fail{Sig: "harness", Msg: rr.err.Error()}
		}
		where := fmt.Sprintf("request %v, repetition %d", c.Request, rep)
		if mustErr {
			why := "a requested or depended-on task is undefined"
			switch {
			case len(c.Dup) > 0:
				why = "a task name is defined twice"
			case ref.cycle && !ref.undefined:
				why = "the dependencies of the selected tasks contain a cycle"
			}
			if rr.err == nil {
				return &rp.Fail{Sig: "missing-error", Size: size, Msg: fmt.Sprintf("%s: %s, but spok reported no error (results: %s)", where, why, names(rr))}
			}
			if len(rr.rec.calls) > 0 {
				return &rp.Fail{Sig: "ran-despite-error", Size: size, Msg: fmt.Sprintf("%s: %s and spok reported %q, but commands ran: %v", where, why, rr.err, rr.rec.calls)}
			}
			continue
		}
		if rr.err != nil {
			if ref.anyCycle {
				// a cycle that the request cannot reach: rejecting the file is accepted, but then nothing may run
				if len(rr.rec.calls) > 0 {
					return &rp.Fail{Sig: "ran-despite-error", Size: size, Msg: fmt.Sprintf("%s: spok reported %q, but commands ran: %v", where, rr.err, rr.rec.calls)}
				}
				continue
			}
			return &rp.Fail{Sig: "unexpected-error", Size: size, Msg: fmt.Sprintf("%s: acyclic, fully defined graph but spok reported %q", where, rr.err)}
		}
		// order of execution as seen by the recorder: each task's commands contiguous, each task once
		var order []string
		done := map[string]bool{}
		for k, cl := range rr.rec.calls {
			if k > 0 && rr.rec.calls[k-1].task == cl.task {
				continue
			}
			if done[cl.task] {
				return &rp.Fail{Sig: "ran-twice-or-interleaved", Size: size, Msg: fmt.Sprintf("%s: commands of task %s ran in two separate stretches: %v", where, cl.task, rr.rec.calls)}
			}
			done[cl.task] = true
			order = append(order, cl.task)
		}
		for _, seq := range [][]string{order, resultOrder(rr)} {
			pos := map[string]int{}
			for k, n := range seq {
				if _, dup := pos[n]; dup {
					return &rp.Fail{Sig: "reported-twice", Size: size, Msg: fmt.Sprintf("%s: task %s appears twice in %v", where, n, seq)}
				}
				pos[n] = k
			}
			for n, k := range pos {
				i, ok := index[n]
				if !ok {
					return &rp.Fail{Sig: "unknown-task-ran", Size: size, Msg: fmt.Sprintf("%s: unknown task %s in %v", where, n, seq)}
				}
				if !ref.closure[i] {
					return &rp.Fail{Sig: "ran-unrequested-task", Size: size, Msg: fmt.Sprintf("%s: task %s is not reachable from the request but appears in %v", where, n, seq)}
				}
				for _, j := range c.deps(i) {
					if kj, ok := pos[graphNames[j]]; ok && kj > k {
						return &rp.Fail{Sig: "dependency-after-dependent", Size: size, Msg: fmt.Sprintf("%s: task %s depends on %s but comes first in %v", where, n, graphNames[j], seq)}
					}
				}
			}
		}
		if len(c.Fail) == 0 {
			// completeness: executed or skipped, the closure exactly once
			got := resultOrder(rr)
			sort.Strings(got)
			var want []string
			for i := range ref.closure {
				want = append(want, graphNames[i])
			}
			sort.Strings(want)
			if strings.Join(got, ",") != strings.Join(want, ",") {
				return &rp.Fail{Sig: "closure-incomplete", Size: size, Msg: fmt.Sprintf("%s: requested tasks and their transitive dependencies are %v but spok ran/reported %v (results in order: %s)", where, want, got, names(rr))}
			}
			for _, r := range rr.results {
				i := index[r.Task]
				wantCmds := 1
				if has(c.TwoCmds, i) {
					wantCmds = 2
				}
				if has(c.Empty, i) {
					wantCmds = 0
				}
				switch {
				case r.Skipped && rr.rec.count[r.Task] != 0:
					return &rp.Fail{Sig: "skipped-but-executed", Size: size, Msg: fmt.Sprintf("%s: task %s reported skipped but ran", where, r.Task)}
				case !r.Skipped && rr.rec.count[r.Task] != wantCmds:
					return &rp.Fail{Sig: "reported-but-not-executed", Size: size, Msg: fmt.Sprintf("%s: task %s reported as run but executed %d of %d commands", where, r.Task, rr.rec.count[r.Task], wantCmds)}
				}
			}
		}
	}
	if s != nil {
		switch {
		case mustErr:
			s.Class("expect_error")
		case ref.anyCycle:
			s.Class("unreachable_cycle")
		default:
			s.Class("expect_run")
		}
		s.Class(fmt.Sprintf("closure_size_%d", len(ref.closure)))
		if len(ref.closure) >= 2 || mustErr {
			s.NonTrivial(src + "\x00" + strings.Join(c.Request, ","))
		}
	}
	return nil
}

func resultOrder(rr runResult) []string {
	var out []string
	for _, r := range rr.results {
		out = append(out, r.Task)
	}
	return out
}

func names(rr runResult) string {
	var out []string
	for _, r := range rr.results {
		n := r.Task
		if r.Skipped {
			n += "(skipped)"
		}
		out = append(out, n)
	}
	return "[" + strings.Join(out, " ") + "]"
}
