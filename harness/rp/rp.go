// Package rp connects pgregory.net/rapid to the evidence collector: it runs a property
// over generated, JSON-serialisable cases and turns the shrunk failure into a replayable
// violation record.
package rp

import (
	"testing"

	"pgregory.net/rapid"

	"verif/ev"
)

// Fail describes why a case falsifies the property.
type Fail struct {
	Sig  string // root-cause signature (may be empty)
	Msg  string
	Size int
}

// Check runs rapid over gen/check. check must be a pure function of the case.
// The last failing execution rapid performs is the minimal one, which is what is recorded.
func Check[C any](t *testing.T, s *ev.Shard, kind string, gen func(*rapid.T) C, check func(C) *Fail) {
	var (
		last     *Fail
		lastCase C
	)
	defer func() {
		if last != nil {
			s.Violation(kind, last.Sig, last.Msg, last.Size, lastCase)
		}
	}()
	rapid.Check(t, func(rt *rapid.T) {
		c := gen(rt)
		s.Eval()
		f := check(c)
		if f == nil {
			return
		}
		if s.IsKnown(f.Sig) {
			s.Known(f.Sig, c)
			return
		}
		last, lastCase = f, c
		s.Freeze()
		rt.Fatalf("%s", f.Msg)
	})
}
