package hashing

import (
	"os"
	"testing"
)

// TestMain moves the process into a scratch directory: code under test that (wrongly) writes
// relative to the working directory must not litter the harness's own source tree.
func TestMain(m *testing.M) {
	base := os.Getenv("VERIF_WORK")
	if base == "" {
		base = os.TempDir()
	}
	dir, err := os.MkdirTemp(base, "cwd-")
	if err == nil {
		_ = os.Chdir(dir)
	}
	code := m.Run()
	if err == nil {
		_ = os.Chdir(base)
		_ = os.RemoveAll(dir)
	}
	os.Exit(code)
}
