package hashing

import (
	"fmt"
	"os"
	"path/filepath"
	"runtime"
	"sort"
	"strconv"
	"strings"
	"unicode/utf8"

	"github.com/FollowTheProcess/spok/hash"

	"verif/ev"
	"verif/rp"
)

// Universe of relative paths: plain names, names that are prefixes / concatenations of each
// other, equal base names in different directories, names with blanks, nested directories.
var c04Names = func() []string {
	out := []string{"x", "xy", "y", "x y", "xx", "dir/x", "dirx", "dir/sub/x", "dir/sub/y", "dir2/x", "dir2/sub/x", "a", "ab", "b", "a_b", "dir/ab", "z.txt", "dir/z.txt",
		// names that continue with bytes the content pool starts with (boundary between path and content)
		"f0", "f", "x0", "x01", "xhello", "dir/x1",
		// a backslash is an ordinary character of a name here: "dir2\\x" is a file next to the directory dir2
		"dir2\\x", "dir2\\sub\\x", "dir\\x",
		// file names are byte strings: names in a legacy encoding (Latin-1 é / è, lone 0xFF / 0xFE) are not
		// valid UTF-8, and the two Unicode spellings of one visible name are different names. Written
		// %XX here so that a saved case survives JSON; disk() gives the bytes.
		"caf%E9.txt", "caf%E8.txt", "dir/%FF", "dir/%FE", "na%C3%AFve", "nai%CC%88ve",
		// a path that changes kind: while it is not one of the files it exists as an (empty) directory
		// and is handed to Hash along with the files, as any directory a glob matches is
		swingName}
	for i := 0; i < 30; i++ {
		out = append(out, fmt.Sprintf("f%02d", i))
	}
	return out
}()

const swingName = "swing"

// disk turns the %XX escapes of a universe name into the bytes of the name on disk.
func disk(n string) string {
	if !strings.Contains(n, "%") {
		return n
	}
	var b []byte
	for i := 0; i < len(n); i++ {
		if n[i] == '%' && i+3 <= len(n) {
			if v, err := strconv.ParseUint(n[i+1:i+3], 16, 8); err == nil {
				b = append(b, byte(v))
				i += 2
				continue
			}
		}
		b = append(b, n[i])
	}
	return string(b)
}

var c04Dirs = func() []string {
	out := []string{"dir", "dir/sub", "dir2", "dir2/sub", "emptydir"}
	// enough directories to occupy every worker several times over
	for i := 0; i < 40; i++ {
		out = append(out, fmt.Sprintf("dd%02d", i))
	}
	return out
}()
var c04Contents = []string{"", "0", "1", "01", "10", "hello\n", "hello", "00", "001"}

// Edit is one step of a C04 edit script.
type Edit struct {
	Op      string `json:"op"` // content rename add remove swap
	Name    string `json:"name"`
	Name2   string `json:"name2,omitempty"`
	Content string `json:"content,omitempty"`
}

// DigestCase is an initial file set, a list order and an edit script.
type DigestCase struct {
	Files      map[string]string `json:"files"`          // name -> content of the regular files on disk and in the list
	Order      []string          `json:"order"`          // the list: a permutation of the file names
	Dirs       []string          `json:"dirs,omitempty"` // directories interleaved in the list
	DupOf      []string          `json:"dup_of,omitempty"`
	Script     []Edit            `json:"script"`
	GoMaxProcs []int             `json:"gomaxprocs"`
	// FailedCallFirst: before the digests are taken, Hash is called once on a list that names a
	// missing file (and returns its error). What an earlier call did has no bearing on a later one.
	FailedCallFirst bool `json:"failed_call_first,omitempty"`
}

type digestBook struct {
	bySet    map[string]string // canonical set -> digest
	byDigest map[string]string // digest -> canonical set
	// digests of lists with duplicate entries -> canonical set (one-directional: see execDigest)
	dupByDigest map[string]string
}

func newBook() *digestBook {
	return &digestBook{bySet: map[string]string{}, byDigest: map[string]string{}, dupByDigest: map[string]string{}}
}

func canonical(root string, files map[string]string) string {
	names := make([]string, 0, len(files))
	for n := range files {
		names = append(names, n)
	}
	sort.Strings(names)
	var b strings.Builder
	for _, n := range names {
		fmt.Fprintf(&b, "%s\x00%s\x01", filepath.Join(root, filepath.FromSlash(disk(n))), files[n])
	}
	return b.String()
}

func describeSet(set string) string {
	out := strings.NewReplacer("\x00", " = ", "\x01", "; ").Replace(set)
	if utf8.ValidString(out) {
		return out
	}
	// names that are not valid UTF-8: show the bytes
	var b strings.Builder
	for i := 0; i < len(out); {
		r, w := utf8.DecodeRuneInString(out[i:])
		if r == utf8.RuneError && w == 1 {
			fmt.Fprintf(&b, "\\x%02x", out[i])
		} else {
			b.WriteString(out[i : i+w])
		}
		i += w
	}
	return b.String()
}

func absList(root string, names []string) []string {
	out := make([]string, len(names))
	for i, n := range names {
		out[i] = filepath.Join(root, filepath.FromSlash(disk(n)))
	}
	return out
}

func syncTree(root string, files map[string]string) error {
	// remove everything that is not wanted, then write what is
	for _, n := range c04Names {
		p := filepath.Join(root, filepath.FromSlash(disk(n)))
		want, ok := files[n]
		if n == swingName {
			if st, err := os.Lstat(p); err == nil && st.IsDir() == ok {
				_ = os.Remove(p) // it is of the other kind now
			}
			if !ok {
				if err := os.Mkdir(p, 0o755); err != nil && !os.IsExist(err) {
					return err
				}
				continue
			}
		}
		if !ok {
			if err := os.Remove(p); err != nil && !os.IsNotExist(err) {
				return err
			}
			continue
		}
		if cur, err := os.ReadFile(p); err == nil && string(cur) == want {
			continue
		}
		if err := os.WriteFile(p, []byte(want), 0o644); err != nil {
			return err
		}
	}
	return nil
}

func prepareRoot(root string) error {
	for _, d := range c04Dirs {
		if err := os.MkdirAll(filepath.Join(root, filepath.FromSlash(d)), 0o755); err != nil {
			return err
		}
	}
	return nil
}

func execDigest(s *ev.Shard, root string, book *digestBook, c DigestCase) *rp.Fail {
	size := len(c.Files) + len(c.Script)*3 + len(c.Dirs) + len(c.DupOf)
	files := map[string]string{}
	for k, v := range c.Files {
		files[k] = v
	}
	order := append([]string(nil), c.Order...)
	if err := syncTree(root, files); err != nil {
		return &rp.Fail{Sig: "harness", Msg: err.Error()}
	}
	if c.FailedCallFirst {
		_, _ = hash.New().Hash([]string{filepath.Join(root, "no-such-file-for-an-earlier-call")})
	}
	procs := c.GoMaxProcs
	if len(procs) == 0 {
		procs = []int{runtime.GOMAXPROCS(0)}
	}
	defer runtime.GOMAXPROCS(runtime.GOMAXPROCS(0))

	// digestOf computes the digest of the current state through several orders / settings and
	// demands that they all agree.
	digestOf := func(step string) (string, *rp.Fail) {
		base := absList(root, order)
		if _, isFile := files[swingName]; !isFile {
			base = append(base, filepath.Join(root, swingName)) // a directory for now
		}
		variants := [][]string{base}
		rev := make([]string, len(base))
		for i, p := range base {
			rev[len(base)-1-i] = p
		}
		variants = append(variants, rev)
		if len(base) > 2 {
			rot := append(append([]string(nil), base[len(base)/2:]...), base[:len(base)/2]...)
			variants = append(variants, rot)
		}
		if len(c.Dirs) > 0 {
			// all directories ahead of the files (as many as there are workers, or more)
			variants = append(variants, append(absList(root, c.Dirs), base...))
		}
		if len(c.Dirs) > 0 {
			// directories interleaved at the front, the middle and the end
			d := absList(root, c.Dirs)
			mixed := append([]string(nil), d[0])
			mixed = append(mixed, base[:len(base)/2]...)
			mixed = append(mixed, d...)
			mixed = append(mixed, base[len(base)/2:]...)
			mixed = append(mixed, d[len(d)-1])
			variants = append(variants, mixed)
		}
		first := ""
		for vi, v := range variants {
			for _, p := range procs {
				runtime.GOMAXPROCS(p)
				d, err := hash.New().Hash(v)
				if err != nil {
					return "", &rp.Fail{Sig: "error-on-readable-list", Size: size, Msg: fmt.Sprintf("%s: Hash(%v) failed: %v", step, v, err)}
				}
				if first == "" {
					first = d
				} else if d != first {
					what := "a reordering of the same list"
					if vi >= len(variants)-2 && len(c.Dirs) > 0 {
						what = "the same list with directories interleaved"
					}
					if vi == 0 {
						what = "the same list at a different GOMAXPROCS / on a repeated call"
					}
					return "", &rp.Fail{Sig: "digest-not-deterministic", Size: size, Msg: fmt.Sprintf("%s: %s gives digest %s instead of %s (list %v, GOMAXPROCS %d)", step, what, d, first, v, p)}
				}
			}
		}
		return first, nil
	}

	record := func(step string) *rp.Fail {
		d, f := digestOf(step)
		if f != nil {
			return f
		}
		set := canonical(root, files)
		if prev, ok := book.bySet[set]; ok && prev != d {
			return &rp.Fail{Sig: "same-set-different-digest", Size: size, Msg: fmt.Sprintf("%s: the file set {%s} had digest %s before and %s now", step, describeSet(set), prev, d)}
		}
		if other, ok := book.dupByDigest[d]; ok && other != set {
			return &rp.Fail{Sig: "different-sets-same-digest", Size: size, Msg: fmt.Sprintf("%s: digest %s for {%s} was also the digest of a list with duplicate entries over the different set {%s}", step, d, describeSet(set), describeSet(other))}
		}
		if other, ok := book.byDigest[d]; ok && other != set {
			return &rp.Fail{Sig: "different-sets-same-digest", Size: size, Msg: fmt.Sprintf("%s: digest %s for {%s} was also the digest of the different set {%s}", step, d, describeSet(set), describeSet(other))}
		}
		book.bySet[set] = d
		book.byDigest[d] = set
		return nil
	}

	if f := record("initial state"); f != nil {
		return f
	}
	// duplicates: only the determinism relation (same multiset, any order), never the book
	if len(c.DupOf) > 0 && len(order) > 0 {
		dl := append(absList(root, order), absList(root, c.DupOf)...)
		d1, err1 := hash.New().Hash(dl)
		rev := make([]string, len(dl))
		for i, p := range dl {
			rev[len(dl)-1-i] = p
		}
		d2, err2 := hash.New().Hash(rev)
		if err1 != nil || err2 != nil || d1 != d2 {
			return &rp.Fail{Sig: "digest-not-deterministic", Size: size, Msg: fmt.Sprintf("list with duplicate entries %v: digests %s / %s (errors %v / %v) for two orders of the same multiset", dl, d1, d2, err1, err2)}
		}
		// whether a repeated entry counts once or twice is left open, but a list with duplicates
		// must never share its digest with a list over a DIFFERENT set of (path, content) pairs
		set := canonical(root, files)
		if other, ok := book.byDigest[d1]; ok && other != set {
			return &rp.Fail{Sig: "different-sets-same-digest", Size: size, Msg: fmt.Sprintf("list with duplicate entries %v over the set {%s} has digest %s, which is also the digest of the different set {%s}", dl, describeSet(set), d1, describeSet(other))}
		}
		if prev, ok := book.dupByDigest[d1]; ok && prev != set {
			return &rp.Fail{Sig: "different-sets-same-digest", Size: size, Msg: fmt.Sprintf("two lists with duplicate entries over different sets ({%s} and {%s}) share the digest %s", describeSet(set), describeSet(prev), d1)}
		}
		book.dupByDigest[d1] = set
	}
	for i, e := range c.Script {
		step := fmt.Sprintf("after edit %d (%s %s %s)", i, e.Op, e.Name, e.Name2)
		switch e.Op {
		case "content":
			if _, ok := files[e.Name]; !ok || files[e.Name] == e.Content {
				continue
			}
			files[e.Name] = e.Content
		case "remove":
			if _, ok := files[e.Name]; !ok {
				continue
			}
			delete(files, e.Name)
			order = without(order, e.Name)
		case "add":
			if _, ok := files[e.Name]; ok {
				continue
			}
			files[e.Name] = e.Content
			order = append(order, e.Name)
		case "rename":
			if _, ok := files[e.Name]; !ok {
				continue
			}
			if _, ok := files[e.Name2]; ok || e.Name == e.Name2 {
				continue
			}
			files[e.Name2] = files[e.Name]
			delete(files, e.Name)
			for j, n := range order {
				if n == e.Name {
					order[j] = e.Name2
				}
			}
		case "content_keep_mtime":
			// a same-size content change whose modification time is put back (cp -p, touch -r,
			// restored backups): the digest depends on the content, not on file metadata
			old, ok := files[e.Name]
			repl, has := map[string]string{"0": "1", "1": "0", "01": "10", "10": "01", "00": "01", "001": "010"}[old]
			if !ok || !has {
				continue
			}
			p := filepath.Join(root, filepath.FromSlash(disk(e.Name)))
			st, err := os.Stat(p)
			if err != nil {
				return &rp.Fail{Sig: "harness", Msg: err.Error()}
			}
			files[e.Name] = repl
			if err := syncTree(root, files); err != nil {
				return &rp.Fail{Sig: "harness", Msg: err.Error()}
			}
			if err := os.Chtimes(p, st.ModTime(), st.ModTime()); err != nil {
				return &rp.Fail{Sig: "harness", Msg: err.Error()}
			}
		case "shift":
			// move the first byte(s) of the content to the end of the name, when that name is in the universe
			content, ok := files[e.Name]
			if !ok || content == "" {
				continue
			}
			moved := false
			for k := 1; k <= len(content) && !moved; k++ {
				target := e.Name + content[:k]
				if _, taken := files[target]; taken {
					continue
				}
				for _, n := range c04Names {
					if n == target {
						files[target] = content[k:]
						delete(files, e.Name)
						for j, o := range order {
							if o == e.Name {
								order[j] = target
							}
						}
						moved = true
						break
					}
				}
			}
			if !moved {
				continue
			}
		case "swap":
			a, okA := files[e.Name]
			b, okB := files[e.Name2]
			if !okA || !okB || a == b {
				continue
			}
			files[e.Name], files[e.Name2] = b, a
		}
		if err := syncTree(root, files); err != nil {
			return &rp.Fail{Sig: "harness", Msg: err.Error()}
		}
		if f := record(step); f != nil {
			return f
		}
	}
	if s != nil {
		if len(c.Files) >= 2 && len(c.Script) >= 1 {
			s.NonTrivial(fmt.Sprint(c.Files, c.Order, c.Dirs, c.Script))
		}
		s.Class(fmt.Sprintf("list_size_%s", sizeClass(len(c.Order))))
	}
	return nil
}

func sizeClass(n int) string {
	cpu := runtime.NumCPU()
	switch {
	case n <= 2:
		return fmt.Sprint(n)
	case n < cpu-1:
		return "3..ncpu-2"
	case n <= cpu+1:
		return "ncpu-1..ncpu+1"
	default:
		return ">ncpu+1"
	}
}

func without(xs []string, x string) []string {
	out := xs[:0:0]
	for _, y := range xs {
		if y != x {
			out = append(out, y)
		}
	}
	return out
}
