// Package hashing is engine E3: the concurrent file hasher (C04 determinism / sensitivity,
// C18 clean return on any path list).
package hashing

import (
	"bytes"
	"fmt"
	"os"
	"path/filepath"
	"runtime"
	"strings"
	"sync"
	"sync/atomic"
	"syscall"
	"time"

	"github.com/FollowTheProcess/spok/hash"

	"verif/ev"
	"verif/rp"
)

// Entry kinds of a C18 path list.
const (
	KRegular  = "regular"
	KEmpty    = "empty"
	KDir      = "dir"
	KMissing  = "missing"
	KDangling = "dangling"
	KSymlink  = "symlink"
	KVanish   = "vanishing"
	KShrink   = "shrinking"            // cut to nothing in place and filled again while being hashed (cp over it, an editor saving)
	KUnread   = "unreadable-dir-entry" // a path below a regular file (ENOTDIR)
	KReadFail = "opens-but-read-fails" // /proc/self/mem: open succeeds, the first read returns EIO
	KLoop     = "link-to-itself"       // open fails with ELOOP
	KLongName = "name-too-long"        // open fails with ENAMETOOLONG
)

// ListCase is a path list described by entry kinds; Repeat > 1 builds large lists with duplicates.
type ListCase struct {
	Kinds      []string `json:"kinds"`
	Dups       []int    `json:"dups,omitempty"` // indices of entries listed a second time
	Repeat     int      `json:"repeat,omitempty"`
	GoMaxProcs int      `json:"gomaxprocs"`
	// Shared: after the single call, four goroutines hash the very same slice at once (callers may
	// share a list; Hash only reads it): all must agree with the single call, and the list is unchanged
	Shared bool `json:"shared,omitempty"`
	// NoFds: while Hash runs the process has no file descriptor to spare (its RLIMIT_NOFILE is 0 for the
	// duration): every open fails with EMFILE, a condition that does not go away by waiting. Hash
	// returns an error (or, for a list without entries to open, a digest); it does not hang.
	NoFds bool `json:"no_fds,omitempty"`
}

func (c ListCase) size() int { return len(c.Kinds) + len(c.Dups) }

func faulty(k string) bool {
	return k == KMissing || k == KDangling || k == KUnread || k == KReadFail || k == KLoop || k == KLongName
}

// readFailPath is a file that can be opened but not read ("" when the platform has none).
var readFailPath = func() string {
	const p = "/proc/self/mem"
	f, err := os.Open(p)
	if err != nil {
		return ""
	}
	defer f.Close()
	if _, err := f.Read(make([]byte, 1)); err == nil {
		return ""
	}
	return p
}()

// shrinking: the paths of the current case that are cut in place rather than removed.
var shrinking = map[string]bool{}

// build creates the entries under root and returns the path list.
func (c ListCase) build(root string) ([]string, []string, error) {
	shrinking = map[string]bool{}
	var paths, vanishing []string
	for i, k := range c.Kinds {
		p := filepath.Join(root, fmt.Sprintf("e%03d", i))
		switch k {
		case KRegular:
			if err := os.WriteFile(p, []byte(fmt.Sprintf("content %d", i)), 0o644); err != nil {
				return nil, nil, err
			}
		case KEmpty:
			if err := os.WriteFile(p, nil, 0o644); err != nil {
				return nil, nil, err
			}
		case KDir:
			if err := os.Mkdir(p, 0o755); err != nil {
				return nil, nil, err
			}
		case KMissing:
		case KDangling:
			if err := os.Symlink(filepath.Join(root, "nowhere"), p); err != nil {
				return nil, nil, err
			}
		case KSymlink:
			target := filepath.Join(root, fmt.Sprintf("t%03d", i))
			if err := os.WriteFile(target, []byte("target"), 0o644); err != nil {
				return nil, nil, err
			}
			if err := os.Symlink(target, p); err != nil {
				return nil, nil, err
			}
		case KVanish:
			if err := os.WriteFile(p, []byte(strings.Repeat("v", 4096)), 0o644); err != nil {
				return nil, nil, err
			}
			vanishing = append(vanishing, p)
		case KShrink:
			if err := os.WriteFile(p, []byte(strings.Repeat("s", 1<<16)), 0o644); err != nil {
				return nil, nil, err
			}
			vanishing = append(vanishing, p)
			shrinking[p] = true
		case KReadFail:
			if readFailPath == "" {
				// no such file here: fall back to a missing one (still an entry that cannot be read)
				break
			}
			p = readFailPath
		case KLoop:
			if err := os.Symlink(filepath.Base(p), p); err != nil {
				return nil, nil, err
			}
		case KLongName:
			p = filepath.Join(root, strings.Repeat("n", 300))
		case KUnread:
			base := filepath.Join(root, fmt.Sprintf("b%03d", i))
			if err := os.WriteFile(base, []byte("file"), 0o644); err != nil {
				return nil, nil, err
			}
			p = filepath.Join(base, "below")
		}
		paths = append(paths, p)
	}
	for _, d := range c.Dups {
		if d >= 0 && d < len(c.Kinds) {
			paths = append(paths, paths[d])
		}
	}
	if c.Repeat > 1 {
		base := paths
		for i := 1; i < c.Repeat; i++ {
			paths = append(paths, base...)
		}
	}
	return paths, vanishing, nil
}

// settle waits until the goroutine count is back at (or below) the baseline.
func settle(baseline int, window time.Duration) (int, bool) {
	deadline := time.Now().Add(window)
	for {
		n := runtime.NumGoroutine()
		if n <= baseline {
			return n, true
		}
		if time.Now().After(deadline) {
			return n, false
		}
		time.Sleep(2 * time.Millisecond)
	}
}

func execList(s *ev.Shard, root string, c ListCase) *rp.Fail {
	_ = os.RemoveAll(root)
	if err := os.MkdirAll(root, 0o755); err != nil {
		return &rp.Fail{Sig: "harness", Msg: err.Error()}
	}
	defer os.RemoveAll(root)
	paths, vanishing, err := c.build(root)
	if err != nil {
		return &rp.Fail{Sig: "harness", Msg: err.Error()}
	}
	if c.GoMaxProcs > 0 {
		defer runtime.GOMAXPROCS(runtime.GOMAXPROCS(c.GoMaxProcs))
	}
	size := len(c.Kinds) + len(c.Dups) + c.Repeat
	nFaulty, nVanish, nRegular := 0, 0, 0
	for _, k := range c.Kinds {
		switch {
		case faulty(k):
			nFaulty++
		case k == KVanish || k == KShrink:
			nVanish++
		case k == KRegular || k == KEmpty || k == KSymlink:
			nRegular++
		}
	}

	// the concurrent "vanisher": removes and recreates files while they are being hashed
	var stop atomic.Bool
	var wg sync.WaitGroup
	if len(vanishing) > 0 {
		wg.Add(1)
		go func() {
			defer wg.Done()
			for !stop.Load() {
				for _, p := range vanishing {
					if shrinking[p] {
						// same file, same inode: its length drops to zero under the reader and grows again
						_ = os.Truncate(p, 0)
						runtime.Gosched()
						if f, err := os.OpenFile(p, os.O_WRONLY, 0); err == nil {
							_, _ = f.Write(bytes.Repeat([]byte("t"), 1<<16))
							_ = f.Close()
						}
						continue
					}
					_ = os.Remove(p)
					runtime.Gosched()
					_ = os.WriteFile(p, []byte(strings.Repeat("w", 4096)), 0o644)
				}
			}
		}()
	}
	if c.Shared {
		// not in sorted order, so that any reordering of the caller's slice shows
		for i, j := 0, len(paths)-1; i < j; i, j = i+1, j-1 {
			paths[i], paths[j] = paths[j], paths[i]
		}
	}
	runtime.Gosched()
	baseline := runtime.NumGoroutine()
	var oldLimit syscall.Rlimit
	if c.NoFds {
		if err := syscall.Getrlimit(syscall.RLIMIT_NOFILE, &oldLimit); err != nil {
			return &rp.Fail{Sig: "harness", Msg: err.Error()}
		}
		none := oldLimit
		none.Cur = 0
		if err := syscall.Setrlimit(syscall.RLIMIT_NOFILE, &none); err != nil {
			return &rp.Fail{Sig: "harness", Msg: err.Error()}
		}
	}
	digest, herr := hash.New().Hash(paths)
	if c.NoFds {
		_ = syscall.Setrlimit(syscall.RLIMIT_NOFILE, &oldLimit)
		if len(paths) > 0 {
			nFaulty++ // nothing could be opened
		}
		if s != nil {
			s.Class("no_file_descriptor_to_spare")
		}
	}
	stop.Store(true)
	wg.Wait()
	if len(vanishing) > 0 {
		baseline-- // the vanisher has ended
	}
	after, ok := settle(baseline, 5*time.Second)

	desc := fmt.Sprintf("list of %d paths (kinds %v, dups %v, repeat %d, GOMAXPROCS %d)", len(paths), c.Kinds, c.Dups, c.Repeat, c.GoMaxProcs)
	if !ok {
		return &rp.Fail{Sig: "goroutine-leak", Size: size, Msg: fmt.Sprintf("%s: %d goroutines before Hash, still %d five seconds after it returned", desc, baseline, after)}
	}
	if (herr == nil) == (digest == "") {
		return &rp.Fail{Sig: "digest-and-error-inconsistent", Size: size, Msg: fmt.Sprintf("%s: returned digest %q together with error %v", desc, digest, herr)}
	}
	switch {
	case nFaulty > 0 && herr == nil:
		return &rp.Fail{Sig: "digest-despite-unopenable-file", Size: size, Msg: fmt.Sprintf("%s: contains a path that cannot be opened but a digest (%s) was returned instead of an error", desc, digest)}
	case nFaulty == 0 && nVanish == 0 && herr != nil:
		return &rp.Fail{Sig: "error-on-readable-list", Size: size, Msg: fmt.Sprintf("%s: every entry is a readable file or a directory but Hash failed: %v", desc, herr)}
	}
	if c.Shared && nVanish == 0 && len(paths) > 0 {
		type out struct {
			d string
			e error
		}
		res := make([]out, 4)
		// the four callers share one slice, handed over in an order of its own (the single call above got another)
		shared := make([]string, len(paths))
		for i, p := range paths {
			shared[(i*7+3)%len(paths)] = p
		}
		if len(paths)%7 == 0 {
			copy(shared, paths)
			for i, j := 0, len(shared)-1; i < j; i, j = i+1, j-1 {
				shared[i], shared[j] = shared[j], shared[i]
			}
		}
		var cw sync.WaitGroup
		for g := 0; g < 4; g++ {
			cw.Add(1)
			go func(g int) {
				defer cw.Done()
				d, e := hash.New().Hash(shared)
				res[g] = out{d, e}
			}(g)
		}
		cw.Wait()
		for g, r := range res {
			if (r.e == nil) != (herr == nil) || r.d != digest {
				return &rp.Fail{Sig: "concurrent-calls-disagree", Size: size, Msg: fmt.Sprintf("%s: a single call gave (%q, %v); one of four concurrent calls on the same list gave (%q, %v) [call %d]", desc, digest, herr, r.d, r.e, g)}
			}
		}
		if _, ok := settle(baseline, 5*time.Second); !ok {
			return &rp.Fail{Sig: "goroutine-leak", Size: size, Msg: fmt.Sprintf("%s: goroutines left behind by four concurrent calls", desc)}
		}
		if s != nil {
			s.Class("four_concurrent_calls_on_one_list")
		}
	}
	if s != nil {
		if herr != nil {
			s.Class("returned_error")
		} else {
			s.Class("returned_digest")
		}
		if (nFaulty > 0 || nVanish > 0) && nRegular > 0 {
			s.NonTrivial(fmt.Sprint(c.Kinds, c.Dups, c.Repeat, c.GoMaxProcs))
		}
	}
	return nil
}
