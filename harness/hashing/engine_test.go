package hashing

import (
	"bufio"
	"encoding/json"
	"fmt"
	"os"
	"os/exec"
	"path/filepath"
	"runtime"
	"strings"
	"testing"
	"time"

	"pgregory.net/rapid"

	"github.com/FollowTheProcess/spok/hash"

	"verif/ev"
	"verif/rp"
)

func id() string { return os.Getenv("VERIF_ID") }

var rules = map[string]string{
	"C04": "cases = (file set over a 48-name universe with prefix/concatenation/equal-base names and a 7-value content pool incl. empty, list order, interleaved directories, edit script of 1-3 steps from {content, rename, add, remove, swap}); list sizes drawn around the worker-count boundary; oracles: every reordering / directory interleaving / GOMAXPROCS in {1,2,4,16} / repetition gives one digest, and a run-wide book digest<->canonical set of (abs path, content) stays a bijection; plus a taskset matrix comparing child processes with NumCPU in {1,2,4,16}. Non-trivial: >= 2 regular files and >= 1 edit step; distinct by (set, order, dirs, script)",
	"C18": "path lists over a temp tree with entries of kind regular/empty/dir/missing/dangling symlink/symlink/path below a file/vanishing (removed and recreated concurrently)/shrinking (cut to nothing in place and refilled concurrently); every position of every faulty kind in every list of size <= 6 (exhaustive), sizes 0..4*NumCPU and 10^4 with duplicates, GOMAXPROCS in {1,2,4,16}; run in-process (also under -race) with goroutine accounting; a crash or stall of the shard process is attributed to the list in flight through the progress area and confirmed solo. Non-trivial: >= 1 faulty or vanishing entry and >= 1 regular file; distinct by shape",
}

func workRoot(t testing.TB) string {
	base := os.Getenv("VERIF_WORK")
	if base == "" {
		base = os.TempDir()
	}
	dir, err := os.MkdirTemp(base, "hash-")
	if err != nil {
		t.Fatal(err)
	}
	t.Cleanup(func() { os.RemoveAll(dir) })
	return dir
}

func TestPlan(t *testing.T) {
	p := ev.Plan{Property: id(), Rule: rules[id()]}
	thorough := ev.Thorough()
	switch id() {
	case "C18":
		p.Level = "fault_enumeration"
		p.CrashIsViolation = true
		p.ReplayKindCrash = "list-inflight"
		p.Assumptions = []string{
			"the harness does not own the Go scheduler: interleavings are sampled through GOMAXPROCS variation, repetition and the race detector, not enumerated",
			"goroutine accounting uses runtime.NumGoroutine with a 5 s settling window",
		}
		p.Shards = append(p.Shards, ev.ShardSpec{Name: "positions-0", Test: "^TestC18Positions$", TimeoutS: 900})
		p.Shards = append(p.Shards, ev.ShardSpec{Name: "positions-race-0", Test: "^TestC18Positions$", Race: true, TimeoutS: 1800})
		if ts, err := exec.LookPath("taskset"); err == nil {
			// the worker count follows runtime.NumCPU (the affinity mask), not GOMAXPROCS
			p.Shards = append(p.Shards, ev.ShardSpec{Name: "positions-1cpu-0", Test: "^TestC18Positions$", Wrap: []string{ts, "-c", "0"}, TimeoutS: 1800})
			p.Shards = append(p.Shards, ev.ShardSpec{Name: "positions-2cpu-0", Test: "^TestC18Positions$", Wrap: []string{ts, "-c", "0,1"}, TimeoutS: 1800})
		}
		n, checks := 6, 400
		if thorough {
			n, checks = 12, 4000
		}
		p.Shards = append(p.Shards, ev.RapidShards("lists", "^TestC18Lists$", n, checks, nil)...)
		rs := ev.RapidShards("lists-race", "^TestC18Lists$", n/2, checks/2, nil)
		for i := range rs {
			rs[i].Race = true
		}
		p.Shards = append(p.Shards, rs...)
	case "C04":
		p.Level = "exploration"
		p.Assumptions = []string{
			"interleavings of the workers are sampled (GOMAXPROCS, CPU affinity, repetition, race detector), not enumerated",
			"SHA-256 collisions are ignored, as the statement allows",
		}
		n, checks := 12, 400
		if thorough {
			n, checks = 16, 6000
		}
		p.Shards = append(p.Shards, ev.RapidShards("digest", "^TestC04Digest$", n, checks, nil)...)
		rs := ev.RapidShards("digest-race", "^TestC04Digest$", 4, checks/4, nil)
		for i := range rs {
			rs[i].Race = true
		}
		p.Shards = append(p.Shards, rs...)
		p.Shards = append(p.Shards, ev.ShardSpec{Name: "affinity-0", Test: "^TestC04Affinity$", TimeoutS: 900})
		p.Shards = append(p.Shards, ev.ShardSpec{Name: "sizes-0", Test: "^TestC04Sizes$", TimeoutS: 1800})
	}
	if err := ev.WritePlan(p); err != nil {
		t.Fatal(err)
	}
}

// ---- C18 ----------------------------------------------------------------------------

var procChoices = []int{1, 2, 4, 16}

func runList(t *testing.T, s *ev.Shard, root string, c ListCase, seen map[string]bool) {
	data, _ := json.Marshal(c)
	s.Progress(uint64(s.Evaluations()), data)
	s.Tick()
	s.Eval()
	if f := execList(s, root, c); f != nil {
		if s.IsKnown(f.Sig) {
			s.Known(f.Sig, c)
			return
		}
		if !seen[f.Sig] {
			seen[f.Sig] = true
			s.Violation("list", f.Sig, f.Msg, f.Size, c)
		}
		// the enumeration runs shortest lists first, so the first witness is the minimal one;
		// carrying on would cost a 5 s settling window for every further leaking case
		t.Fatalf("violation recorded: %s", f.Msg)
	}
}

// TestC18Positions: every position of every faulty kind in every list of size <= 6 whose
// other entries are regular files, for each GOMAXPROCS, repeated.
func TestC18Positions(t *testing.T) {
	s := ev.Open(t, "C18")
	s.Watchdog(20*time.Second, 8<<30)
	defer s.Done()
	root := filepath.Join(workRoot(t), "tree")
	_, _ = hash.New().Hash(nil) // warm-up
	reps := 3
	if ev.Thorough() {
		reps = 25
	}
	seen := map[string]bool{}
	for _, kind := range []string{KMissing, KDangling, KUnread, KReadFail, KLoop, KLongName, KVanish, KShrink, KDir, KEmpty, KSymlink} {
		for n := 1; n <= 6; n++ {
			for pos := 0; pos < n; pos++ {
				for _, procs := range procChoices {
					for r := 0; r < reps; r++ {
						c := ListCase{GoMaxProcs: procs}
						for i := 0; i < n; i++ {
							if i == pos {
								c.Kinds = append(c.Kinds, kind)
							} else {
								c.Kinds = append(c.Kinds, KRegular)
							}
						}
						if r == 0 && pos == 0 && procs == 1 {
							s.Sample(c)
						}
						runList(t, s, root, c, seen)
					}
				}
			}
		}
	}
	// two faults, and a fault next to a directory
	for _, a := range []string{KMissing, KDangling, KVanish, KShrink} {
		for _, b := range []string{KMissing, KDir, KVanish} {
			for _, procs := range procChoices {
				runList(t, s, root, ListCase{Kinds: []string{a, KRegular, b, KRegular}, GoMaxProcs: procs}, seen)
				runList(t, s, root, ListCase{Kinds: []string{KRegular, a, b}, GoMaxProcs: procs}, seen)
			}
		}
	}
	// no file descriptor to spare while hashing
	for n := 0; n <= 6; n++ {
		for _, procs := range procChoices {
			c := ListCase{GoMaxProcs: procs, NoFds: true}
			for i := 0; i < n; i++ {
				c.Kinds = append(c.Kinds, []string{KRegular, KDir, KSymlink}[i%3])
			}
			runList(t, s, root, c, seen)
		}
	}
	// empty list, single entries, lists made of directories only
	for _, procs := range procChoices {
		runList(t, s, root, ListCase{GoMaxProcs: procs}, seen)
		runList(t, s, root, ListCase{Kinds: []string{KDir, KDir}, GoMaxProcs: procs}, seen)
		runList(t, s, root, ListCase{Kinds: []string{KDir, KDir, KDir}, GoMaxProcs: procs}, seen)
		runList(t, s, root, ListCase{Kinds: []string{KDir}, Dups: []int{0, 0}, GoMaxProcs: procs}, seen)
		runList(t, s, root, ListCase{Kinds: []string{KDir, KEmpty, KDir}, GoMaxProcs: procs}, seen)
		runList(t, s, root, ListCase{Kinds: []string{KRegular}, Dups: []int{0}, GoMaxProcs: procs}, seen)
	}
	s.Extra("positions_exhaustive_up_to", 6)
	if s.Failed() {
		t.Fatal("violations recorded")
	}
}

var c18Kinds = []string{KRegular, KRegular, KRegular, KRegular, KEmpty, KDir, KDir, KMissing, KDangling, KSymlink, KVanish, KShrink, KUnread, KReadFail, KLoop, KLongName}

func genList(t *rapid.T) ListCase {
	cpu := runtime.NumCPU()
	c := ListCase{GoMaxProcs: rapid.SampledFrom(procChoices).Draw(t, "procs")}
	var n int
	switch rapid.IntRange(0, 5).Draw(t, "sizeclass") {
	case 0:
		n = rapid.IntRange(0, 3).Draw(t, "n_small")
	case 1:
		n = rapid.SampledFrom([]int{cpu - 1, cpu, cpu + 1, 2 * cpu, 2*cpu + 1, 4 * cpu}).Draw(t, "n_boundary")
	default:
		n = rapid.IntRange(0, 4*cpu).Draw(t, "n")
	}
	allOK := rapid.IntRange(0, 3).Draw(t, "all_ok") == 0
	for i := 0; i < n; i++ {
		k := rapid.SampledFrom(c18Kinds).Draw(t, "kind")
		if allOK && (faulty(k) || k == KVanish || k == KShrink) {
			k = KRegular
		}
		c.Kinds = append(c.Kinds, k)
	}
	if n > 0 {
		nd := rapid.IntRange(0, 3).Draw(t, "ndups")
		for i := 0; i < nd; i++ {
			c.Dups = append(c.Dups, rapid.IntRange(0, n-1).Draw(t, "dup"))
		}
		if rapid.IntRange(0, 29).Draw(t, "huge") == 0 {
			c.Repeat = 10000/n + 1
		}
	}
	c.Shared = c.Repeat == 0 && rapid.IntRange(0, 3).Draw(t, "shared") == 0
	c.NoFds = !c.Shared && rapid.IntRange(0, 11).Draw(t, "no_fds") == 0
	return c
}

func TestC18Lists(t *testing.T) {
	s := ev.Open(t, "C18")
	s.Watchdog(20*time.Second, 8<<30)
	defer s.Done()
	root := filepath.Join(workRoot(t), "tree")
	_, _ = hash.New().Hash(nil)
	rp.Check(t, s, "list", genList, func(c ListCase) *rp.Fail {
		data, _ := json.Marshal(c)
		s.Progress(0, data)
		s.Tick()
		if s.WantSample() {
			s.Sample(c)
		}
		switch {
		case c.Repeat > 1:
			s.Class("size_10k_with_duplicates")
		case len(c.Kinds) <= 3:
			s.Class("size_0..3")
		default:
			s.Class("size_4..4ncpu")
		}
		return execList(s, root, c)
	})
}

// ---- C04 ----------------------------------------------------------------------------

func genDigest(t *rapid.T) DigestCase {
	cpu := runtime.NumCPU()
	var n int
	switch rapid.IntRange(0, 3).Draw(t, "sizeclass") {
	case 0:
		n = rapid.IntRange(0, 2).Draw(t, "n_small")
	case 1:
		n = rapid.SampledFrom([]int{cpu - 1, cpu, cpu + 1, 2 * cpu, 2*cpu + 1}).Draw(t, "n_boundary")
	default:
		n = rapid.IntRange(0, len(c04Names)).Draw(t, "n")
	}
	if n > len(c04Names) {
		n = len(c04Names)
	}
	perm := rapid.Permutation(c04Names).Draw(t, "names")
	c := DigestCase{Files: map[string]string{}, GoMaxProcs: []int{1, 2, 4, 16}}
	for _, name := range perm[:n] {
		c.Files[name] = rapid.SampledFrom(c04Contents).Draw(t, "content")
		c.Order = append(c.Order, name)
	}
	if rapid.Bool().Draw(t, "withdirs") {
		nd := rapid.IntRange(1, 3).Draw(t, "ndirs")
		if rapid.IntRange(0, 3).Draw(t, "manydirs") == 0 {
			nd = rapid.SampledFrom([]int{cpu, cpu + 1, 2*cpu + 1}).Draw(t, "ndirs_many")
		}
		for i := 0; i < nd; i++ {
			c.Dirs = append(c.Dirs, rapid.SampledFrom(c04Dirs).Draw(t, "dir"))
		}
	}
	if n > 0 && rapid.IntRange(0, 2).Draw(t, "withdups") == 0 {
		// one or two extra copies of an entry (so that both even and odd multiplicities occur)
		d := perm[rapid.IntRange(0, n-1).Draw(t, "dupidx")]
		c.DupOf = append(c.DupOf, d)
		if rapid.Bool().Draw(t, "dup_twice") {
			c.DupOf = append(c.DupOf, d)
		}
	}
	ns := rapid.IntRange(1, 3).Draw(t, "nsteps")
	anyName := func(label string) string { return rapid.SampledFrom(c04Names).Draw(t, label) }
	inSet := func(label string) string {
		if n == 0 {
			return anyName(label)
		}
		return perm[rapid.IntRange(0, n-1).Draw(t, label)]
	}
	for i := 0; i < ns; i++ {
		switch rapid.IntRange(0, 6).Draw(t, "op") {
		case 6:
			c.Script = append(c.Script, Edit{Op: "content_keep_mtime", Name: inSet("kept")})
		case 5:
			c.Script = append(c.Script, Edit{Op: "shift", Name: inSet("shifted")})
		case 0:
			c.Script = append(c.Script, Edit{Op: "content", Name: inSet("target"), Content: rapid.SampledFrom(c04Contents).Draw(t, "newcontent")})
		case 1:
			c.Script = append(c.Script, Edit{Op: "rename", Name: inSet("from"), Name2: anyName("to")})
		case 2:
			c.Script = append(c.Script, Edit{Op: "add", Name: anyName("added"), Content: rapid.SampledFrom(c04Contents).Draw(t, "addcontent")})
		case 3:
			c.Script = append(c.Script, Edit{Op: "remove", Name: inSet("removed")})
		default:
			c.Script = append(c.Script, Edit{Op: "swap", Name: inSet("swapa"), Name2: inSet("swapb")})
		}
	}
	c.FailedCallFirst = rapid.IntRange(0, 9).Draw(t, "failed_call_first") == 0
	return c
}

func TestC04Digest(t *testing.T) {
	s := ev.Open(t, "C04")
	root := filepath.Join(workRoot(t), "tree")
	if err := prepareRoot(root); err != nil {
		t.Fatal(err)
	}
	book := newBook()
	rp.Check(t, s, "digest", genDigest, func(c DigestCase) *rp.Fail {
		if s.WantSample() {
			s.Sample(c)
		}
		for _, e := range c.Script {
			s.Class("edit_" + e.Op)
		}
		if len(c.Dirs) > 0 {
			s.Class("with_directories")
		}
		if len(c.DupOf) > 0 {
			s.Class("with_duplicates")
		}
		return execDigest(s, root, book, c)
	})
}

// TestC04Sizes: sizes and counts far from those of the generated sets. A file of 64 KiB, 1 MiB (one
// byte less, exactly, one byte more), 16 MiB and (sparse) a little over 1 GiB and over 2 GiB, changed
// in one byte at its beginning, in its middle, at its very end: every such change changes the digest,
// and putting the byte back brings the digest back. Lists of 1 000, 4 095, 4 096, 4 097 and 10 000
// files: the digest does not depend on the order of the list or on GOMAXPROCS, is the same when the
// call is repeated, and changes when one file of the list changes.
func TestC04Sizes(t *testing.T) {
	s := ev.Open(t, "C04")
	if f := execSizes(t, s); f != nil || s.Failed() {
		t.Fatal("violations recorded")
	}
}

// execSizes runs the whole space; with s == nil (replay) it only returns the first failure.
func execSizes(t *testing.T, s *ev.Shard) *rp.Fail {
	root := filepath.Join(workRoot(t), "sizes")
	if err := os.MkdirAll(root, 0o755); err != nil {
		t.Fatal(err)
	}
	defer os.RemoveAll(root)
	seen := map[string]bool{}
	var first1 *rp.Fail
	report := func(sig, msg string, c any) {
		if first1 == nil {
			first1 = &rp.Fail{Sig: sig, Msg: msg, Size: 1}
		}
		if !seen[sig] && s != nil {
			seen[sig] = true
			s.Violation("sizes", sig, msg, 1, c)
		}
	}
	eval := func(class string, c any) {
		if s != nil {
			s.Eval()
			s.Class(class)
			s.NonTrivial(fmt.Sprint(c))
		}
	}
	digest := func(list []string) string {
		d, err := hash.New().Hash(list)
		if err != nil {
			report("error-on-readable-list", fmt.Sprintf("Hash of %d readable files failed: %v", len(list), err), map[string]any{"files": len(list)})
		}
		return d
	}
	sizes := []int64{1 << 16, 1<<20 - 1, 1 << 20, 1<<20 + 1, 16 << 20, 1<<30 + 100<<20}
	if ev.Thorough() {
		sizes = append(sizes, 2<<30+5, 4<<30+1)
	}
	for _, size := range sizes {
		p := filepath.Join(root, fmt.Sprintf("big-%d", size))
		f, err := os.Create(p)
		if err != nil {
			t.Fatal(err)
		}
		if err := f.Truncate(size); err != nil { // sparse: zeros that take no space
			t.Fatal(err)
		}
		other := filepath.Join(root, "small.txt")
		_ = os.WriteFile(other, []byte("small"), 0o644)
		base := digest([]string{p, other})
		offsets := []int64{0, 100, size / 2, size - (1 << 20) - 1, size - 1}
		if size > 1<<30 && !ev.Thorough() {
			offsets = []int64{100, size - 1} // a gigabyte takes seconds to hash
		}
		for _, off := range offsets {
			if off < 0 || off >= size {
				continue
			}
			c := map[string]any{"file_size": size, "byte_changed_at": off}
			eval("one_byte_of_a_large_file", c)
			if _, err := f.WriteAt([]byte{'x'}, off); err != nil {
				t.Fatal(err)
			}
			changed := digest([]string{p, other})
			if changed == base {
				report("different-sets-same-digest", fmt.Sprintf("a file of %d bytes (zeros) next to a small one: the byte at offset %d was changed to 'x', the digest stayed %s", size, off, base), c)
			}
			if _, err := f.WriteAt([]byte{0}, off); err != nil {
				t.Fatal(err)
			}
			if back := digest([]string{other, p}); back != base {
				report("same-set-different-digest", fmt.Sprintf("a file of %d bytes: after changing the byte at offset %d and putting it back the digest is %s, it was %s", size, off, back, base), c)
			}
		}
		_ = f.Close()
		_ = os.Remove(p)
	}
	// many files
	many := filepath.Join(root, "many")
	_ = os.MkdirAll(many, 0o755)
	var all []string
	for i := 0; i < 10000; i++ {
		p := filepath.Join(many, fmt.Sprintf("f%05d.txt", i))
		if err := os.WriteFile(p, []byte(fmt.Sprintf("content %d", i%7)), 0o644); err != nil {
			t.Fatal(err)
		}
		all = append(all, p)
	}
	defer runtime.GOMAXPROCS(runtime.GOMAXPROCS(0))
	for _, n := range []int{1000, 4095, 4096, 4097, 10000} {
		list := append([]string(nil), all[:n]...)
		c := map[string]any{"files_in_the_list": n}
		eval("lists_of_thousands_of_files", c)
		first := digest(list)
		rev := make([]string, n)
		for i, p := range list {
			rev[n-1-i] = p
		}
		rot := append(append([]string(nil), list[n/3:]...), list[:n/3]...)
		for vi, v := range [][]string{list, rev, rot, list} {
			for _, procs := range []int{1, 2, 16} {
				runtime.GOMAXPROCS(procs)
				if d := digest(v); d != first {
					report("digest-not-deterministic", fmt.Sprintf("a list of %d files: order variant %d at GOMAXPROCS %d gives %s, the first call gave %s", n, vi, procs, d, first), c)
				}
			}
		}
		victim := list[n-1]
		old, _ := os.ReadFile(victim)
		_ = os.WriteFile(victim, []byte("edited"), 0o644)
		if d := digest(list); d == first {
			report("different-sets-same-digest", fmt.Sprintf("a list of %d files: the last one was edited, the digest stayed %s", n, first), c)
		}
		_ = os.WriteFile(victim, old, 0o644)
	}
	return first1
}

// TestC04Affinity: the same lists hashed by child processes pinned to 1, 2, 4 and 16 CPUs
// (runtime.NumCPU, hence the worker count, follows the affinity mask) must agree.
func TestC04Affinity(t *testing.T) {
	s := ev.Open(t, "C04")
	taskset, err := exec.LookPath("taskset")
	if err != nil {
		s.Note("taskset not available: NumCPU variation skipped")
		return
	}
	root := filepath.Join(workRoot(t), "tree")
	if err := prepareRoot(root); err != nil {
		t.Fatal(err)
	}
	files := map[string]string{}
	for i, n := range c04Names {
		files[n] = c04Contents[i%len(c04Contents)]
	}
	if err := syncTree(root, files); err != nil {
		t.Fatal(err)
	}
	// deterministic list family: prefixes and strided selections of the universe, sizes around every boundary
	var lists [][]string
	seed := uint64(ev.Seed())
	for size := 0; size <= len(c04Names); size++ {
		for variant := 0; variant < 3; variant++ {
			var l []string
			for i := 0; i < size; i++ {
				seed = seed*6364136223846793005 + 1442695040888963407
				idx := (uint64(i)*uint64(2*variant+1) + uint64(variant)*(seed>>60)) % uint64(len(c04Names))
				l = append(l, c04Names[idx])
			}
			if variant == 2 {
				l = append(l, c04Dirs[size%len(c04Dirs)])
			}
			if variant == 1 && size%3 == 0 {
				l = append([]string{c04Dirs[size%5], c04Dirs[(size+1)%5]}, l...)
			}
			lists = append(lists, l)
		}
	}
	listFile := filepath.Join(filepath.Dir(root), "lists.json")
	data, _ := json.Marshal(lists)
	if err := os.WriteFile(listFile, data, 0o644); err != nil {
		t.Fatal(err)
	}
	var ref []string
	for _, k := range []int{1, 2, 4, 16} {
		if k > runtime.NumCPU() {
			s.Note("only %d CPUs available: affinity %d skipped", runtime.NumCPU(), k)
			continue
		}
		cmd := exec.Command(taskset, "-c", fmt.Sprintf("0-%d", k-1), os.Args[0], "-test.run", "^TestC04Child$", "-test.count", "1")
		cmd.Env = append(os.Environ(), "VERIF_C04_ROOT="+root, "VERIF_C04_LISTS="+listFile, "VERIF_OUT=")
		out, err := cmd.CombinedOutput()
		if err != nil {
			t.Fatalf("child with %d cpus failed: %v\n%s", k, err, out)
		}
		var got []string
		ncpu := ""
		sc := bufio.NewScanner(strings.NewReader(string(out)))
		for sc.Scan() {
			if strings.HasPrefix(sc.Text(), "DIGEST ") {
				got = append(got, strings.TrimPrefix(sc.Text(), "DIGEST "))
			}
			if strings.HasPrefix(sc.Text(), "NUMCPU ") {
				ncpu = strings.TrimPrefix(sc.Text(), "NUMCPU ")
			}
		}
		if len(got) != len(lists) {
			t.Fatalf("child with %d cpus printed %d digests for %d lists\n%s", k, len(got), len(lists), out)
		}
		s.EvalN(int64(len(got)))
		s.Class("affinity_numcpu_" + ncpu)
		if ref == nil {
			ref = got
			continue
		}
		for i := range got {
			if got[i] != ref[i] {
				c := map[string]any{"list": lists[i], "numcpu": k}
				s.Violation("affinity", "digest-depends-on-cpu-count", fmt.Sprintf("list %v: digest %s with 1 CPU but %s with %d CPUs (runtime.NumCPU=%s)", lists[i], ref[i], got[i], k, ncpu), len(lists[i]), c)
				t.Fatal("violation recorded")
			}
		}
	}
	for i, l := range lists {
		if len(l) >= 2 {
			s.NonTrivial(fmt.Sprint("affinity", i, l))
		}
	}
}

func TestC04Child(t *testing.T) {
	root, lf := os.Getenv("VERIF_C04_ROOT"), os.Getenv("VERIF_C04_LISTS")
	if root == "" || lf == "" {
		t.Skip()
	}
	data, err := os.ReadFile(lf)
	if err != nil {
		t.Fatal(err)
	}
	var lists [][]string
	if err := json.Unmarshal(data, &lists); err != nil {
		t.Fatal(err)
	}
	fmt.Printf("NUMCPU %d\n", runtime.NumCPU())
	for _, l := range lists {
		d, err := hash.New().Hash(absList(root, l))
		if err != nil {
			t.Fatalf("Hash(%v): %v", l, err)
		}
		fmt.Printf("DIGEST %s\n", d)
	}
}

// TestReplay re-executes one saved case.
func TestReplay(t *testing.T) {
	data, err := os.ReadFile(os.Getenv("VERIF_REPLAY"))
	if err != nil {
		t.Skip("no replay file")
	}
	var v ev.Violation
	if err := json.Unmarshal(data, &v); err != nil {
		t.Fatalf("bad replay file: %v", err)
	}
	root := filepath.Join(workRoot(t), "tree")
	var f *rp.Fail
	switch v.Kind {
	case "list", "list-inflight":
		raw := v.Case
		if v.Kind == "list-inflight" {
			var w struct {
				Text string `json:"payload_text"`
			}
			if err := json.Unmarshal(v.Case, &w); err != nil {
				t.Fatal(err)
			}
			raw = []byte(w.Text)
		}
		var c ListCase
		if err := json.Unmarshal(raw, &c); err != nil {
			t.Fatal(err)
		}
		// schedule-dependent: repeat
		for i := 0; i < 20 && f == nil; i++ {
			f = execList(nil, root, c)
		}
	case "sizes":
		f = execSizes(t, nil)
	case "digest":
		var c DigestCase
		if err := json.Unmarshal(v.Case, &c); err != nil {
			t.Fatal(err)
		}
		if err := prepareRoot(root); err != nil {
			t.Fatal(err)
		}
		for i := 0; i < 5 && f == nil; i++ {
			f = execDigest(nil, root, newBook(), c)
		}
	case "affinity":
		t.Skip("affinity violations are re-checked by the check itself")
	default:
		t.Fatalf("unknown replay kind %q", v.Kind)
	}
	if f != nil {
		t.Fatalf("%s [%s]", f.Msg, f.Sig)
	}
}
