// Package sandbox runs the spok binary inside a throw-away directory tree as an
// unprivileged user, and takes before/after snapshots of that tree.
//
// Layout:   <base>/box-XXXX/            root-owned, mode 0711 (uid 65534 cannot list it)
//
//	bin/spok                copy of the binary under test
//	sb/                     owned by uid 65534; everything spok may touch
//	sb/outer/home           $HOME of the sandboxed process
//	sb/outer/home/proj      default project directory
//
// A mutated `spok --clean` may try to delete anything it can reach: as uid 65534 it cannot
// write outside sb/, and two sacrificial levels (outer/home) sit above the project.
package sandbox

import (
	"bytes"
	"context"
	"crypto/sha256"
	"encoding/hex"
	"errors"
	"fmt"
	"io"
	"io/fs"
	"os"
	"os/exec"
	"path/filepath"
	"regexp"
	"sort"
	"strings"
	"syscall"
	"time"
)

const nobody = 65534

// Box is one sandbox.
type Box struct {
	Dir   string // box-XXXX
	SB    string // Dir/sb
	Home  string // SB/outer/home
	Proj  string // Home/proj
	Spok  string // Dir/bin/spok
	Drop  bool   // run as uid 65534
	Calls int
	// Invoke: how runs whose working directory is the project root are really started ("" = there,
	// without --spokfile): "rel-dot" there with --spokfile ./spokfile; "rel-parent" in the parent with
	// --spokfile <project>/spokfile; "abs-elsewhere" / "rel-elsewhere" in a sibling directory with an
	// absolute / relative --spokfile. All of them name the same spokfile, so nothing else may differ.
	Invoke string
	// ClosedStdout: the next run's standard output is a pipe nobody reads from any more (`spok ... | head -0`):
	// the first thing spok prints kills it. Reset after one run.
	ClosedStdout bool
	// FullStdout: the next run's standard output is /dev/full (every write fails with ENOSPC). Reset after one run.
	FullStdout bool
	// FileOutputs: standard output and standard error of every run are regular files, as under
	// `spok build >out.log 2>err.log` or a CI system that captures logs in files (fsync works on
	// them, isatty says no, writes never block); read back after the run. Reset by ResetFor.
	FileOutputs bool
	// FsizeLimit: when > 0, the next run may not make any file larger than this many bytes (prlimit
	// --fsize): a write beyond it fails with EFBIG, as on a full disk or over quota. Reset after one run.
	FsizeLimit int64
	// Cpus: when set (e.g. "0,1"), spok is started under `taskset -c <Cpus>` — it then sees that many CPUs
	Cpus string
}

// New creates a sandbox below base with a private copy of the spok binary.
func New(base, spokBinary string) (*Box, error) {
	dir, err := os.MkdirTemp(base, "box-")
	if err != nil {
		return nil, err
	}
	if err := os.Chmod(dir, 0o711); err != nil {
		return nil, err
	}
	b := &Box{Dir: dir, SB: filepath.Join(dir, "sb"), Drop: os.Geteuid() == 0}
	b.Home = filepath.Join(b.SB, "outer", "home")
	b.Proj = filepath.Join(b.Home, "proj")
	if err := os.MkdirAll(filepath.Join(dir, "bin"), 0o755); err != nil {
		return nil, err
	}
	b.Spok = filepath.Join(dir, "bin", "spok")
	if err := copyFile(spokBinary, b.Spok, 0o755); err != nil {
		return nil, fmt.Errorf("copying spok binary: %w", err)
	}
	if err := b.Reset(); err != nil {
		return nil, err
	}
	return b, nil
}

func copyFile(src, dst string, mode os.FileMode) error {
	in, err := os.Open(src)
	if err != nil {
		return err
	}
	defer in.Close()
	out, err := os.OpenFile(dst, os.O_CREATE|os.O_TRUNC|os.O_WRONLY, mode)
	if err != nil {
		return err
	}
	if _, err := io.Copy(out, in); err != nil {
		out.Close()
		return err
	}
	return out.Close()
}

// Close removes the sandbox.
func (b *Box) Close() { _ = os.RemoveAll(b.Dir) }

// Reset empties sb/ and recreates outer/home/proj.
func (b *Box) Reset() error {
	if err := os.RemoveAll(b.SB); err != nil {
		return err
	}
	if err := os.MkdirAll(b.Proj, 0o755); err != nil {
		return err
	}
	return b.Own()
}

// ResetAs is Reset with the project directory called name ("" = proj): the directory a spokfile
// lives in may be called anything the file system allows.
func (b *Box) ResetAs(name string) error { return b.ResetFor(name, "") }

// ResetFor is ResetAs plus the way spok is pointed at the project (see Box.Invoke).
func (b *Box) ResetFor(name, invoke string) error {
	if name == "" {
		name = "proj"
	}
	b.Proj = filepath.Join(b.Home, name)
	b.Invoke = invoke
	b.Cpus = ""
	b.FileOutputs = false
	if err := b.Reset(); err != nil {
		return err
	}
	if invoke == "abs-elsewhere" || invoke == "rel-elsewhere" {
		if err := os.MkdirAll(filepath.Join(b.Home, "started-here"), 0o755); err != nil {
			return err
		}
		return b.Own()
	}
	return nil
}

// start maps the working directory a check asks for to the one spok is really started in, and the
// --spokfile value that goes with it ("" = none).
func (b *Box) start(cwd string) (string, string) {
	if b.Invoke == "" || cwd != b.Proj {
		return cwd, ""
	}
	base := filepath.Base(b.Proj)
	switch b.Invoke {
	case "rel-dot":
		return cwd, "./spokfile"
	case "rel-parent":
		return b.Home, base + "/spokfile"
	case "abs-elsewhere":
		return filepath.Join(b.Home, "started-here"), filepath.Join(b.Proj, "spokfile")
	case "rel-elsewhere":
		return filepath.Join(b.Home, "started-here"), "../" + base + "/spokfile"
	}
	return cwd, ""
}

// EffectiveCwd is the directory a run asked to start in cwd really starts in (what join() and
// other working-directory-relative things see).
func (b *Box) EffectiveCwd(cwd string) string {
	d, _ := b.start(cwd)
	return d
}

func hasArg(args []string, a string) bool {
	for _, x := range args {
		if x == a {
			return true
		}
	}
	return false
}

// Own hands everything under sb/ to the sandbox user (after the harness wrote files as root).
func (b *Box) Own() error {
	if !b.Drop {
		return nil
	}
	return filepath.WalkDir(b.SB, func(path string, d fs.DirEntry, err error) error {
		if err != nil {
			return err
		}
		return os.Lchown(path, nobody, nobody)
	})
}

// Write creates a file (and its directories) relative to dir.
func Write(dir, rel, content string) error {
	p := filepath.Join(dir, filepath.FromSlash(rel))
	if err := os.MkdirAll(filepath.Dir(p), 0o755); err != nil {
		return err
	}
	return os.WriteFile(p, []byte(content), 0o644)
}

// Result of one invocation.
type Result struct {
	Exit     int
	Signal   string
	TimedOut bool
	Stdout   string
	Stderr   string
}

var ansi = regexp.MustCompile("\x1b\\[[0-9;]*[A-Za-z]")

// Strip removes ANSI styling.
func Strip(s string) string { return ansi.ReplaceAllString(s, "") }

// Run executes spok with args in cwd. env entries are added to a scrubbed environment.
func (b *Box) Run(cwd string, env []string, timeout time.Duration, args ...string) Result {
	return b.RunWrapped(nil, cwd, env, timeout, args...)
}

// RunWrapped is Run with a wrapper command (e.g. strace with fault injection) in front of spok.
func (b *Box) RunWrapped(wrapper []string, cwd string, env []string, timeout time.Duration, args ...string) Result {
	b.Calls++
	if !hasArg(args, "--spokfile") && !hasArg(args, "--init") {
		var sf string
		if cwd, sf = b.start(cwd); sf != "" {
			args = append([]string{"--spokfile=" + sf}, args...)
		}
	}
	cx, cancel := context.WithTimeout(context.Background(), timeout)
	defer cancel()
	if b.Cpus != "" {
		if ts, err := exec.LookPath("taskset"); err == nil {
			wrapper = append([]string{ts, "-c", b.Cpus}, wrapper...)
		}
	}
	fsize := b.FsizeLimit
	b.FsizeLimit = 0
	if fsize > 0 {
		if pl, err := exec.LookPath("prlimit"); err == nil {
			wrapper = append([]string{pl, fmt.Sprintf("--fsize=%d", fsize), "--"}, wrapper...)
		}
	}
	argv := append(append(append([]string(nil), wrapper...), b.Spok), args...)
	cmd := exec.CommandContext(cx, argv[0], argv[1:]...)
	cmd.Dir = cwd
	// PWD names the working directory the way the caller spelled it, as a shell would set it (a
	// directory reached through a symbolic link keeps its logical name); callers may override it
	cmd.Env = append([]string{"HOME=" + b.Home, "PATH=/usr/local/bin:/usr/bin:/bin", "LANG=C", "TERM=dumb", "NO_COLOR=1", "PWD=" + cwd}, env...)
	attr := &syscall.SysProcAttr{Setpgid: true}
	if b.Drop {
		attr.Credential = &syscall.Credential{Uid: nobody, Gid: nobody, NoSetGroups: false, Groups: []uint32{}}
	}
	cmd.SysProcAttr = attr
	cmd.Cancel = func() error { return syscall.Kill(-cmd.Process.Pid, syscall.SIGKILL) }
	var so, se bytes.Buffer
	cmd.Stdout, cmd.Stderr = &so, &se
	var outF, errF *os.File
	if b.FileOutputs && fsize == 0 {
		if f1, e1 := os.CreateTemp(b.Dir, "stdout-*.log"); e1 == nil {
			if f2, e2 := os.CreateTemp(b.Dir, "stderr-*.log"); e2 == nil {
				outF, errF = f1, f2
				cmd.Stdout, cmd.Stderr = f1, f2
			} else {
				_ = f1.Close()
				_ = os.Remove(f1.Name())
			}
		}
	}
	if b.ClosedStdout {
		b.ClosedStdout = false
		if pr, pw, perr := os.Pipe(); perr == nil {
			_ = pr.Close()
			cmd.Stdout = pw
			defer pw.Close()
		}
	}
	if b.FullStdout {
		b.FullStdout = false
		if f, ferr := os.OpenFile("/dev/full", os.O_WRONLY, 0); ferr == nil {
			cmd.Stdout = f
			defer f.Close()
		}
	}
	err := cmd.Run()
	res := Result{Stdout: so.String(), Stderr: se.String()}
	if outF != nil {
		for _, f := range []*os.File{outF, errF} {
			data, _ := os.ReadFile(f.Name())
			if f == outF && cmd.Stdout == outF {
				res.Stdout = string(data)
			} else if f == errF {
				res.Stderr = string(data)
			}
			_ = f.Close()
			_ = os.Remove(f.Name())
		}
	}
	if cx.Err() != nil {
		res.TimedOut = true
	}
	if err != nil {
		var ee *exec.ExitError
		if errors.As(err, &ee) {
			res.Exit = ee.ExitCode()
			if ws, ok := ee.Sys().(syscall.WaitStatus); ok && ws.Signaled() {
				res.Signal = ws.Signal().String()
				res.Exit = 128 + int(ws.Signal())
			}
		} else {
			res.Exit = -1
			res.Stderr += "\n[harness] could not start spok: " + err.Error()
		}
	}
	return res
}

// Entry is one path of a snapshot.
type Entry struct {
	Type string // "file", "dir", "link", "other"
	Mode fs.FileMode
	Sum  string // content hash (files), target (links)
}

// Snapshot maps every path below root (relative, slash separated; "." is root itself) to its entry.
func Snapshot(root string) (map[string]Entry, error) {
	out := map[string]Entry{}
	err := filepath.WalkDir(root, func(path string, d fs.DirEntry, err error) error {
		if err != nil {
			return err
		}
		rel, err := filepath.Rel(root, path)
		if err != nil {
			return err
		}
		rel = filepath.ToSlash(rel)
		info, err := d.Info()
		if err != nil {
			return err
		}
		e := Entry{Mode: info.Mode().Perm()}
		switch {
		case info.Mode()&fs.ModeSymlink != 0:
			e.Type = "link"
			e.Sum, _ = os.Readlink(path)
		case info.IsDir():
			e.Type = "dir"
		case info.Mode().IsRegular():
			e.Type = "file"
			data, err := os.ReadFile(path)
			if err != nil {
				return err
			}
			h := sha256.Sum256(data)
			e.Sum = hex.EncodeToString(h[:8])
		default:
			e.Type = "other"
		}
		out[rel] = e
		return nil
	})
	return out, err
}

// Change describes one difference between two snapshots.
type Change struct {
	Path string
	What string // "created", "removed", "modified"
}

// Diff lists the differences between two snapshots, sorted by path.
func Diff(before, after map[string]Entry) []Change {
	var out []Change
	for p, b := range before {
		a, ok := after[p]
		switch {
		case !ok:
			out = append(out, Change{p, "removed"})
		case a != b:
			out = append(out, Change{p, "modified"})
		}
	}
	for p := range after {
		if _, ok := before[p]; !ok {
			out = append(out, Change{p, "created"})
		}
	}
	sort.Slice(out, func(i, j int) bool { return out[i].Path < out[j].Path })
	return out
}

// Under reports whether path p equals dir or lies below it (slash-separated relative paths).
func Under(p, dir string) bool {
	return p == dir || strings.HasPrefix(p, dir+"/")
}
