package syntax

import (
	"encoding/base64"
	"encoding/json"
	"fmt"
	"os"
	"runtime"
	"strconv"
	"strings"
	"testing"
	"time"
	"unicode/utf8"

	"pgregory.net/rapid"

	"verif/ev"
	"verif/gen"
	"verif/rp"
)

func id() string { return os.Getenv("VERIF_ID") }

// singleP makes crashes attributable: with one P and a yield after every case, the lexer
// goroutine of a case runs to its end (or to its death) before the next case is published.
// The -race shards keep the default GOMAXPROCS so that real two-goroutine schedules are sampled too.
func singleP() {
	if os.Getenv("VERIF_MULTIP") == "" {
		runtime.GOMAXPROCS(1)
	}
}

func settle() {
	runtime.Gosched()
	runtime.Gosched()
}

const enumChunk = 250000

func enumLen() int {
	if ev.Thorough() {
		return 6
	}
	return 5
}

var rules = map[string]string{
	"C16": "inputs: every string over the 25-symbol lexer class alphabet up to the stated length (bounded-exhaustive), generated programs in random layouts, permissive-grammar soup; lexed up to the first EOF/ERROR token. Non-trivial: >= 3 tokens and a newline or multi-byte rune before the last token; distinct by input text",
	"C07": "inputs as C16's; oracle: parse(x) ok => parse(print(parse(x))) ok and equal semantic projection (variables, values, tasks, dependencies, outputs, commands in order). Non-trivial: x parses to >= 1 node; distinct by formatted text",
	"C11": "inputs as C07's; oracle: print(parse(f1)) == f1 byte for byte where f1 = print(parse(x)). Non-trivial: f1 != x (input was not already canonical); distinct by f1",
	"C15": "inputs as C07's weighted towards comments; oracle: sequence of (non-empty comment text | assignment | task+docstring) equal before and after formatting. Non-trivial: >= 1 non-empty comment or docstring and >= 1 task; distinct by projection+formatted text",
	"C08": "inputs: class-alphabet strings (bounded-exhaustive), every byte prefix of generated programs, biased byte strings; each parsed twice in a watchdogged worker. Non-trivial: lexer emitted >= 2 tokens before the end/error; distinct by input",
	"C06": "abstract spokfiles (0-6 statements) rendered in random admissible layouts, parsed and compared with the generating structure. Non-trivial: (>= 1 task with >= 1 command or >= 2 statements) and layout differs from the canonical formatting; distinct by source text",
}

func TestPlan(t *testing.T) {
	p := ev.Plan{Property: id(), Level: "exploration", Rule: rules[id()]}
	p.Assumptions = []string{
		"the Go toolchain, pgregory.net/rapid and the harness's own projection/comparison code are trusted",
		"bounded-exhaustive only within the stated length bound; beyond it the space is sampled",
	}
	thorough := ev.Thorough()
	total := gen.AlphaTotal(enumLen())
	enum := ev.RangeShards("enum", "^TestEnum$", total, enumChunk, nil)
	for i := range enum {
		enum[i].TimeoutS = 600
	}
	nr, checks := 8, 10000
	if thorough {
		nr, checks = 16, 60000
	}
	switch id() {
	case "C06":
		n, c := 16, 2500
		if thorough {
			n, c = 16, 60000
		}
		p.Shards = append(p.Shards, ev.RapidShards("prog", "^TestC06Prog$", n, c, nil)...)
		per := uint64(1)
		if !thorough {
			per = 6 // quick: the same enumeration, structures grouped, capped lower by the shard itself
		}
		p.Shards = append(p.Shards, ev.RangeShards("layouts", "^TestC06Layouts$", uint64(len(layoutStructures)), per, nil)...)
	case "C08":
		p.CrashIsViolation = true
		p.ReplayKindCrash = "input-inflight"
		p.Shards = append(p.Shards, enum...)
		p.Shards = append(p.Shards, ev.RapidShards("prefix", "^TestPrefix$", nr, checks/5, nil)...)
		p.Shards = append(p.Shards, ev.RapidShards("bytes", "^TestBytes$", nr, checks, nil)...)
		p.Shards = append(p.Shards, ev.RapidShards("soup", "^TestSoup$", nr, checks, nil)...)
		rs := ev.RapidShards("race", "^TestSoup$", 2, checks/2, nil)
		for i := range rs {
			rs[i].Race = true
		}
		p.Shards = append(p.Shards, rs...)
	default:
		if id() == "C16" {
			// a lexer that dies or never ends its stream does not deliver "a finite stream ending in EOF or an error token"
			p.CrashIsViolation = true
			p.ReplayKindCrash = "input-inflight"
		}
		p.Shards = append(p.Shards, enum...)
		p.Shards = append(p.Shards, ev.RapidShards("prog", "^TestProg$", nr, checks, nil)...)
		p.Shards = append(p.Shards, ev.RapidShards("soup", "^TestSoup$", nr, checks*2, nil)...)
		p.Shards = append(p.Shards, ev.RapidShards("bytes", "^TestBytes$", nr, checks, nil)...)
	}
	if id() == "C15" {
		kn, kc := 4, 5000
		if thorough {
			kn, kc = 16, 40000
		}
		p.Shards = append(p.Shards, ev.RapidShards("known", "^TestKnownComments$", kn, kc, nil)...)
	}
	if id() != "C06" {
		tot := identScriptsTotal()
		p.Shards = append(p.Shards, ev.RangeShards("scripts", "^TestIdentScripts$", tot, tot/4+1, nil)...)
	}
	if thorough && id() != "C06" {
		// native coverage-guided fuzzing: seeded from the repository's inputs, and once from an empty corpus
		p.Parallel = 0
		p.Shards = append(p.Shards,
			ev.ShardSpec{Name: "fuzz-seeded", Test: "^FuzzInput$", Fuzz: true, Env: map[string]string{"VERIF_FUZZTIME": "90s"}, TimeoutS: 1200},
			ev.ShardSpec{Name: "fuzz-empty", Test: "^FuzzInput$", Fuzz: true, Env: map[string]string{"VERIF_FUZZTIME": "60s", "VERIF_FUZZ_EMPTY": "1"}, TimeoutS: 1200},
			ev.ShardSpec{Name: "fuzz-soup", Test: "^FuzzSoup$", Fuzz: true, Env: map[string]string{"VERIF_FUZZTIME": "60s"}, TimeoutS: 1200},
		)
	}
	if err := ev.WritePlan(p); err != nil {
		t.Fatal(err)
	}
}

// report records a failing input once per signature; returns true when the shard should stop.
type reporter struct {
	s    *ev.Shard
	seen map[string]bool
}

func (r *reporter) fail(f *rp.Fail, c any) {
	if r.s.IsKnown(f.Sig) {
		r.s.Known(f.Sig, c)
		return
	}
	if r.seen == nil {
		r.seen = map[string]bool{}
	}
	if r.seen[f.Sig] {
		return
	}
	r.seen[f.Sig] = true
	r.s.Violation("input", f.Sig, f.Msg, f.Size, c)
}

// TestEnum runs the property's predicate over the class-alphabet strings [VERIF_LO, VERIF_HI).
func TestEnum(t *testing.T) {
	s := ev.Open(t, id())
	lo, hi := ev.RangeFromEnv()
	s.Watchdog(10*time.Second, 6<<30)
	defer s.Done()
	singleP()
	rep := &reporter{s: s}
	buf := make([]byte, 0, 64)
	step := (hi - lo) / 3
	if step == 0 {
		step = 1
	}
	for idx := lo; idx < hi; idx++ {
		buf = gen.AlphaString(idx, buf)
		x := string(buf)
		s.Progress(idx, buf)
		s.Tick()
		s.Eval()
		if f := checkInput(id(), s, x); f != nil {
			rep.fail(f, mkInput(x))
		}
		settle()
		if (idx-lo)%step == (lo/enumChunk*7919+13)%step {
			s.Sample(mkInput(x).Text)
		}
	}
	s.Extra("enum_max_symbols", enumLen())
	if s.Failed() {
		t.Fatalf("violations recorded")
	}
}

// ProgCase is a generated program in a concrete layout together with its generating structure.
type ProgCase struct {
	Src  InputCase  `json:"src"`
	Want []gen.Stmt `json:"want"`
}

func genProg(t *rapid.T) ProgCase {
	want := gen.Program(t)
	if rapid.IntRange(0, 199).Draw(t, "very_long_file") == 0 {
		n := rapid.IntRange(1000, 5000).Draw(t, "extra_statements")
		extra := make([]gen.Stmt, 0, n+len(want))
		for i := 0; i < n; i++ {
			switch i % 4 {
			case 0:
				extra = append(extra, gen.Stmt{Kind: "comment", Text: " note"})
			case 1, 2:
				extra = append(extra, gen.Stmt{Kind: "assign", Name: "V", ValKind: "string", ValText: "v"})
			default:
				extra = append(extra, gen.Stmt{Kind: "task", Name: "t", Cmds: []string{"echo hi"}})
			}
		}
		want = gen.Normalize(append(extra, want...))
	}
	src := gen.Render(gen.RapidChooser{T: t}, want)
	return ProgCase{Src: mkInput(src), Want: want}
}

func checkC06(s *ev.Shard, c ProgCase) *rp.Fail {
	x := c.Src.input()
	tree, err, pan := parse(x)
	if pan != nil {
		return &rp.Fail{Sig: "parser-panic", Msg: fmt.Sprintf("parsing %q panicked: %v", x, pan), Size: len(x)}
	}
	if err != nil {
		return &rp.Fail{Sig: "admissible-layout-rejected", Msg: fmt.Sprintf("spokfile %q, written from a known structure in an admissible layout, is rejected: %v", x, err), Size: len(x)}
	}
	got := gen.Canon(gen.Project(tree))
	want := gen.Canon(c.Want)
	if d := gen.Diff(got, want); d != "" {
		return &rp.Fail{Sig: "structure-differs", Msg: fmt.Sprintf("spokfile %q parses to a different structure than written: %s", x, d), Size: len(x)}
	}
	if s != nil {
		tasksWithCmd := false
		for _, st := range want {
			if st.Kind == "task" && len(st.Cmds) > 0 {
				tasksWithCmd = true
			}
		}
		if f, _ := format(tree); (tasksWithCmd || len(want) >= 2) && f != x {
			s.NonTrivial(x)
		}
		classifyProg(s, x, c.Want)
	}
	return nil
}

func classifyProg(s *ev.Shard, x string, want []gen.Stmt) {
	if len(want) == 0 {
		s.Class("empty_program")
	}
	crlf, lf := false, false
	for i := 0; i < len(x); i++ {
		if x[i] == '\n' {
			if i > 0 && x[i-1] == '\r' {
				crlf = true
			} else {
				lf = true
			}
		}
	}
	switch {
	case crlf && lf:
		s.Class("nl_mixed")
	case crlf:
		s.Class("nl_crlf")
	case lf:
		s.Class("nl_lf")
	}
	if !isASCII(x) {
		s.Class("non_ascii")
	}
	for _, st := range want {
		s.Class("stmt_" + st.Kind)
		if st.Kind == "task" {
			if st.HasDoc {
				s.Class("task_with_doc")
			}
			if len(st.Outs) > 0 {
				s.Class("task_with_outputs")
			}
			if len(st.Cmds) > 1 {
				s.Class("task_multi_cmd")
			}
		}
	}
}

func TestC06Prog(t *testing.T) {
	s := ev.Open(t, "C06")
	rp.Check(t, s, "prog", genProg, func(c ProgCase) *rp.Fail {
		if s.WantSample() {
			s.Sample(map[string]any{"src": c.Src.Text, "statements": len(c.Want)})
		}
		return checkC06(s, c)
	})
}

// KnownCommentsCase: a rendered program together with the comments and docstrings it was written
// with (base64: the texts may hold bytes that are not UTF-8).
type KnownCommentsCase struct {
	Src  InputCase `json:"src"`
	Want []string  `json:"want_b64"`
}

func (c KnownCommentsCase) want() []string {
	out := make([]string, len(c.Want))
	for i, w := range c.Want {
		b, _ := base64.StdEncoding.DecodeString(w)
		out[i] = string(b)
	}
	return out
}

// checkKnownComments: the comments a file was written with are what its formatted text must
// hold — judged against the writer's knowledge, not against what the parser made of the file.
func checkKnownComments(s *ev.Shard, c KnownCommentsCase) *rp.Fail {
	x := c.Src.input()
	tree1, err1, pan1 := parse(x)
	if pan1 != nil || err1 != nil {
		if s != nil {
			s.Class("blocked_by_C06_or_C08")
		}
		return nil
	}
	f1, panf := format(tree1)
	if panf != nil {
		return nil
	}
	tree2, err2, pan2 := parse(f1)
	if pan2 != nil || err2 != nil {
		// the formatted text cannot be read back (C07's subject); a comment that was kept with its text
		// intact is still a piece of that text, in the order the comments were written
		rest := f1
		for _, w := range c.want() {
			text := w[2:]
			if strings.HasPrefix(w, "T:") {
				text = w[strings.Index(w[2:], ":")+3:]
			} else if !strings.HasPrefix(w, "C:") {
				continue
			}
			if text == "" {
				continue
			}
			i := strings.Index(rest, text)
			if i < 0 {
				return &rp.Fail{Sig: "comment-text-lost", Size: len(x), Msg: fmt.Sprintf("input %q was written with the comment/docstring %q, which is nowhere (in order) in its formatted text %q", x, text, f1)}
			}
			rest = rest[i+len(text):]
		}
		if s != nil {
			s.Class("blocked_by_C07")
		}
		return nil
	}
	want, got := c.want(), gen.Comments(gen.Project(tree2))
	if strings.Join(want, "\x00") != strings.Join(got, "\x00") {
		return &rp.Fail{Sig: "comments-changed", Size: len(x), Msg: fmt.Sprintf("input %q was written with comments/docstrings %q, its formatted text %q has %q", x, want, f1, got)}
	}
	if s != nil {
		s.Class("space_known_comments")
		if !utf8.ValidString(x) {
			s.Class("comment_text_not_utf8")
		}
		if len(want) >= 2 && f1 != x {
			s.NonTrivial("known:" + x)
		}
	}
	return nil
}

func TestKnownComments(t *testing.T) {
	s := ev.Open(t, "C15")
	rp.Check(t, s, "known-comments", func(rt *rapid.T) KnownCommentsCase {
		want := gen.Program(rt)
		for i := range want {
			// legacy encodings: a comment or docstring may hold bytes that are not UTF-8
			if want[i].Kind == "comment" && rapid.IntRange(0, 7).Draw(rt, "odd_comment") == 0 {
				want[i].Text += rapid.SampledFrom([]string{" caf\xe9", "\xe9", " \xff!", "\xc3", " na\xefve \xa0"}).Draw(rt, "odd_bytes")
			}
			if want[i].Kind == "task" && want[i].HasDoc && rapid.IntRange(0, 7).Draw(rt, "odd_doc") == 0 {
				want[i].Doc += rapid.SampledFrom([]string{" caf\xe9", "\xe9", " \xff!", "\xc3"}).Draw(rt, "odd_doc_bytes")
			}
		}
		if rapid.IntRange(0, 49).Draw(rt, "very_long_file") == 0 {
			// nothing bounds the length of a spokfile: a few thousand more comments and variables in front
			n := rapid.IntRange(1000, 5000).Draw(rt, "extra_statements")
			extra := make([]gen.Stmt, 0, n+len(want))
			for i := 0; i < n; i++ {
				if i%3 == 2 {
					extra = append(extra, gen.Stmt{Kind: "assign", Name: "V", ValKind: "string", ValText: "v"})
				} else {
					extra = append(extra, gen.Stmt{Kind: "comment", Text: fmt.Sprintf(" note %c", 'a'+rune(i%26))})
				}
			}
			want = gen.Normalize(append(extra, want...))
		}
		x := gen.Render(gen.RapidChooser{T: rt}, want)
		c := KnownCommentsCase{Src: mkInput(x)}
		for _, w := range gen.Comments(want) {
			c.Want = append(c.Want, base64.StdEncoding.EncodeToString([]byte(w)))
		}
		return c
	}, func(c KnownCommentsCase) *rp.Fail {
		if s.WantSample() && len(c.Src.Text) < 4000 {
			s.Sample(c.Src.Text)
		}
		if len(c.Want) > 500 {
			s.Class("file_with_thousands_of_statements")
		}
		return checkKnownComments(s, c)
	})
}

// TestProg feeds generated programs in random layouts to the input-level properties.
func TestProg(t *testing.T) {
	s := ev.Open(t, id())
	s.Watchdog(10*time.Second, 6<<30)
	defer s.Done()
	rp.Check(t, s, "input", func(rt *rapid.T) InputCase {
		if rapid.IntRange(0, 2).Draw(rt, "joined") == 0 {
			return mkInput(gen.WithStrayBytes(rt, gen.RenderJoined(gen.RapidChooser{T: rt}, gen.Program(rt))))
		}
		return mkInput(gen.WithManyStatements(rt, gen.WithStrayBytes(rt, genProg(rt).Src.input())))
	}, func(c InputCase) *rp.Fail {
		x := c.input()
		s.Progress(0, []byte(x))
		s.Tick()
		if s.WantSample() {
			s.Sample(c.Text)
		}
		s.Class("space_prog")
		return checkInput(id(), s, x)
	})
}

// TestReplay re-executes one saved case without rapid or the enumerator.
func TestReplay(t *testing.T) {
	data, err := os.ReadFile(os.Getenv("VERIF_REPLAY"))
	if err != nil {
		t.Skip("no replay file")
	}
	var v ev.Violation
	if err := json.Unmarshal(data, &v); err != nil {
		t.Fatalf("bad replay file: %v", err)
	}
	var f *rp.Fail
	switch v.Kind {
	case "input":
		var c InputCase
		if err := json.Unmarshal(v.Case, &c); err != nil {
			t.Fatal(err)
		}
		f = checkInput(v.Property, nil, c.input())
		time.Sleep(100 * time.Millisecond)
	case "input-inflight":
		var c struct {
			Payload string `json:"payload_b64"`
		}
		if err := json.Unmarshal(v.Case, &c); err != nil {
			t.Fatal(err)
		}
		f = checkInput(v.Property, nil, InputCase{B64: c.Payload}.input())
		// the lexer goroutine may outlive the parse and die afterwards: give it time to
		time.Sleep(300 * time.Millisecond)
	case "known-comments":
		var c KnownCommentsCase
		if err := json.Unmarshal(v.Case, &c); err != nil {
			t.Fatal(err)
		}
		f = checkKnownComments(nil, c)
	case "prog":
		var c ProgCase
		if err := json.Unmarshal(v.Case, &c); err != nil {
			t.Fatal(err)
		}
		f = checkC06(nil, c)
	default:
		t.Fatalf("unknown replay kind %q", v.Kind)
	}
	if f != nil {
		t.Fatalf("%s [%s]", f.Msg, f.Sig)
	}
}

// TestSoup feeds permissive-grammar inputs to the input-level properties.
func TestSoup(t *testing.T) {
	s := ev.Open(t, id())
	s.Watchdog(10*time.Second, 6<<30)
	defer s.Done()
	rp.Check(t, s, "input", func(rt *rapid.T) InputCase {
		return mkInput(gen.WithStrayBytes(rt, gen.WithHugeLine(rt, gen.Soup(rt))))
	}, func(c InputCase) *rp.Fail {
		x := c.input()
		s.Progress(0, []byte(x))
		s.Tick()
		if s.WantSample() && len(x) < 4000 {
			s.Sample(c.Text)
		}
		s.Class("space_soup")
		if len(x) > 65000 {
			s.Class("input_with_line_around_64KiB")
		}
		return checkInput(id(), s, x)
	})
}

// TestPrefix: every byte prefix of a generated program / soup (truncation), C08.
func TestPrefix(t *testing.T) {
	s := ev.Open(t, id())
	s.Watchdog(10*time.Second, 6<<30)
	defer s.Done()
	type prefCase struct {
		Full InputCase `json:"full"`
		Cut  int       `json:"cut"` // -1: all prefixes
	}
	_ = prefCase{}
	rp.Check(t, s, "input", func(rt *rapid.T) InputCase {
		var x string
		if rapid.Bool().Draw(rt, "fromprog") {
			x = genProg(rt).Src.input()
		} else {
			x = gen.Soup(rt)
		}
		if len(x) > 400 {
			x = x[:400]
		}
		return mkInput(x)
	}, func(c InputCase) *rp.Fail {
		full := c.input()
		s.Class("space_prefix")
		if s.WantSample() {
			s.Sample(c.Text)
		}
		// all proper prefixes, shortest first, so the reported witness is the shortest failing one
		for n := 0; n <= len(full); n++ {
			x := full[:n]
			s.Progress(uint64(n), []byte(x))
			s.Tick()
			if n < len(full) {
				s.Eval()
			}
			if f := checkInput(id(), s, x); f != nil {
				f.Msg = fmt.Sprintf("prefix of %d bytes of a %d-byte program: %s", n, len(full), f.Msg)
				return f
			}
		}
		return nil
	})
}

var byteAlphabet = append([]string{"\xa0", "\x85", "\u00a0", "\u2028", "\ufeff", "\x00", "\xff", "\xc3", "\xe4\xb8", "\xf0\x9f\x98\x80", " ", " ", "\v", "\f", "0", "-", "=", ">", "<", "|", "'", "\\", "{{.X}}", "task ", "task", " := ", "()", "{}", "{\n", "\n}", "aaaaaaaaaaaaaaaaaaaaaaaaaaaaaaaaaaaaaaaa"}, gen.Alphabet...)

// identTemplates: a small program per identifier position; %s is the identifier.
var identTemplates = []string{
	"%s := \"v\"\n",
	"X := \"a\" %s := \"v\"\n",
	"# c\n%s := join(\"a\", X)\n",
	"X := %s\n",
	"X := join(%s, \"b\")\n",
	"task %s() {\n    echo hi\n}\n",
	"# doc\ntask t(%s, \"f.go\") -> %s {\n    go build\n}\n",
	"task t() -> (\"a\", %s) { echo {{.X}} }  %s := \"v\"",
	"task t() {}\r\n%s := \"v\"\r\n",
}

// TestIdentScripts: identifiers in every identifier position x identifier shapes (bare, behind and
// in front of the keyword-like text "task", with '_') x one letter for every UTF-8 lead byte and
// every 64-code-point block of the Basic Multilingual Plane that has letters.
func TestIdentScripts(t *testing.T) {
	s := ev.Open(t, id())
	s.Watchdog(10*time.Second, 6<<30)
	defer s.Done()
	letters := append(append([]rune(nil), gen.LeadLetters...), gen.WideLetters...)
	lo, hi := ev.RangeFromEnv()
	shapes := []string{"%c", "task%c", "%ctask", "task_%c", "a%cb", "task%ctask"}
	var idx uint64
	seen := map[string]bool{}
	var names []string
	for _, l := range letters {
		for _, shape := range shapes {
			names = append(names, fmt.Sprintf(shape, l))
		}
	}
	// words reserved elsewhere (Go, shell, flags) are ordinary names here
	names = append(names, gen.ReservedWords...)
	for _, name := range names {
		{
			for _, tpl := range identTemplates {
				idx++
				if idx-1 < lo || idx-1 >= hi {
					continue
				}
				x := strings.ReplaceAll(tpl, "%s", name)
				s.Progress(idx-1, []byte(x))
				s.Tick()
				s.Class("space_ident_scripts")
				if idx%997 == 0 {
					s.Sample(strconv.QuoteToASCII(x))
				}
				if f := checkInput(id(), s, x); f != nil && !seen[f.Sig] {
					seen[f.Sig] = true
					s.Violation("input", f.Sig, f.Msg, f.Size, mkInput(x))
				}
			}
		}
	}
	if s.Failed() {
		t.Fatal("violations recorded")
	}
}

func identScriptsTotal() uint64 {
	return uint64(((len(gen.LeadLetters)+len(gen.WideLetters))*6 + len(gen.ReservedWords)) * len(identTemplates))
}

// TestBytes: byte strings biased to the token alphabet, NUL, invalid UTF-8, long lines,
// deep brace runs (C08 and, as an extra space, the other input-level properties).
func TestBytes(t *testing.T) {
	s := ev.Open(t, id())
	s.Watchdog(10*time.Second, 6<<30)
	defer s.Done()
	rp.Check(t, s, "input", func(rt *rapid.T) InputCase {
		switch rapid.IntRange(0, 9).Draw(rt, "shape") {
		case 0:
			return mkInput(string(rapid.SliceOfN(rapid.Byte(), 0, 40).Draw(rt, "raw")))
		case 1:
			// deep brace / paren runs around a valid prefix
			n := rapid.IntRange(1, 10000).Draw(rt, "depth")
			sym := rapid.SampledFrom([]string{"{", "}", "(", ")", "{{", "}}", "\n", "#", "\"", "f(", "a,", "\"a\","}).Draw(rt, "sym")
			pre := rapid.SampledFrom([]string{"", "task t() ", "task t() {", "X := join(", "task t(", "task t() -> ("}).Draw(rt, "pre")
			if id() == "C08" && rapid.IntRange(0, 299).Draw(rt, "very_deep") == 0 {
				// millions of levels: recursion that is fine for thousands of levels runs out of stack here
				return repeatedInput(pre, sym, rapid.IntRange(1_000_000, 2_000_000).Draw(rt, "depth_huge"))
			}
			return mkInput(pre + repeat(sym, n))
		default:
			parts := rapid.SliceOfN(rapid.SampledFrom(byteAlphabet), 0, 14).Draw(rt, "parts")
			x := ""
			for _, p := range parts {
				x += p
			}
			return mkInput(x)
		}
	}, func(c InputCase) *rp.Fail {
		x := c.input()
		s.Progress(0, c.payload())
		s.Tick()
		s.Class("space_bytes")
		if s.WantSample() && len(x) < 200 {
			s.Sample(c.Text)
		}
		return checkInput(id(), s, x)
	})
}

func repeat(s string, n int) string {
	out := make([]byte, 0, len(s)*n)
	for i := 0; i < n; i++ {
		out = append(out, s...)
	}
	return string(out)
}

// ---- exhaustive layout enumeration for small fixed structures (C06, thorough) ----------

func s(args ...gen.Arg) []gen.Arg { return args }
func str(t string) gen.Arg        { return gen.Arg{Str: true, Text: t} }
func idt(t string) gen.Arg        { return gen.Arg{Text: t} }

var layoutStructures = [][]gen.Stmt{
	{{Kind: "comment", Text: " a comment"}},
	{{Kind: "assign", Name: "X", ValKind: "string", ValText: "v"}},
	{{Kind: "assign", Name: "X", ValKind: "func", ValText: "join", Args: s(str("a"), str("b"))}},
	{{Kind: "assign", Name: "X", ValKind: "func", ValText: "exec", Args: s(str("git rev-parse HEAD"))}},
	{{Kind: "assign", Name: "X", ValKind: "func", ValText: "join"}},
	{{Kind: "task", Name: "t"}},
	{{Kind: "task", Name: "t", Cmds: []string{"go test ./..."}}},
	{{Kind: "task", Name: "t", Cmds: []string{"echo {{.X}}", "ls -la"}}},
	{{Kind: "task", Name: "t", HasDoc: true, Doc: " doc", Cmds: []string{"a"}}},
	{{Kind: "task", Name: "t", Deps: s(str("**/*.go")), Cmds: []string{"a"}}},
	{{Kind: "task", Name: "t", Deps: s(str("a.go"), idt("dep")), Cmds: []string{"a"}}},
	{{Kind: "task", Name: "t", Outs: s(str("bin/x")), Cmds: []string{"a"}}},
	{{Kind: "task", Name: "t", Outs: s(idt("OUT")), Cmds: []string{"a"}}},
	{{Kind: "task", Name: "t", Outs: s(str("a"), idt("B"))}},
	{{Kind: "task", Name: "t", Deps: s(idt("d")), Outs: s(str("o"))}},
	{{Kind: "comment", Text: " c"}, {Kind: "assign", Name: "X", ValKind: "string", ValText: "v"}},
	{{Kind: "assign", Name: "X", ValKind: "string", ValText: "v"}, {Kind: "task", Name: "t", Cmds: []string{"a"}}},
	{{Kind: "assign", Name: "X", ValKind: "func", ValText: "join", Args: s(str("a"))}, {Kind: "comment", Text: " c"}},
	{{Kind: "task", Name: "a"}, {Kind: "task", Name: "b", Deps: s(idt("a"))}},
	{{Kind: "comment", Text: ""}, {Kind: "task", Name: "t", HasDoc: true, Doc: " d"}},
	{{Kind: "comment", Text: " c"}, {Kind: "comment", Text: " d"}, {Kind: "assign", Name: "é", ValKind: "string", ValText: "λ"}},
	{{Kind: "task", Name: "tasks", Cmds: []string{"echo task"}}},
	{{Kind: "assign", Name: "task_x", ValKind: "string", ValText: "#"}},
	{{Kind: "task", Name: "t", Cmds: []string{"a", "b", "c"}}},
	{{Kind: "task", Name: "t", Deps: s(str("x"), str("y"), str("z"))}},
	{{Kind: "assign", Name: "A", ValKind: "string", ValText: ""}, {Kind: "assign", Name: "B", ValKind: "func", ValText: "exec", Args: s(idt("A"))}},
	{{Kind: "task", Name: "t", HasDoc: true, Doc: "d", Deps: s(str("a")), Outs: s(str("b")), Cmds: []string{"c"}}},
	{{Kind: "comment", Text: " only"}, {Kind: "comment", Text: "#"}},
	{{Kind: "task", Name: "t", Cmds: []string{"echo \"q\" 'r'"}}, {Kind: "comment", Text: " end"}},
	{{Kind: "task", Name: "中", Deps: s(idt("é")), Cmds: []string{"a {{.B}}"}}},
}

func layoutCapN() int {
	if ev.Thorough() {
		return 2000000
	}
	return 30000
}

func TestC06Layouts(t *testing.T) {
	sh := ev.Open(t, "C06")
	lo, hi := ev.RangeFromEnv()
	rep := &reporter{s: sh}
	for si := int(lo); si < int(hi) && si < len(layoutStructures); si++ {
		want := gen.Normalize(layoutStructures[si])
		od := gen.NewOdometer()
		n := 0
		for {
			src := gen.Render(od, want)
			n++
			sh.Eval()
			c := ProgCase{Src: mkInput(src), Want: want}
			if f := checkC06(sh, c); f != nil {
				rep.fail(f, c)
				if f.Sig == "harness" {
					break
				}
			}
			if n == 1 || n == 1000 {
				sh.Sample(map[string]any{"structure": si, "layout_no": n, "src": c.Src.Text})
			}
			if !od.Next() || n >= layoutCapN() {
				break
			}
		}
		sh.Class(fmt.Sprintf("structure_%02d_layouts", si))
		sh.ClassN(fmt.Sprintf("structure_%02d_layouts", si), int64(n-1))
		if n >= layoutCapN() {
			sh.Note("structure %d: layout space larger than %d, enumeration capped (depth-first prefix of the space)", si, layoutCapN())
		}
	}
	if sh.Failed() {
		t.Fatal("violations recorded")
	}
}
