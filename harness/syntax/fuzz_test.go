package syntax

import (
	"go/ast"
	"go/parser"
	"go/token"
	"os"
	"path/filepath"
	"strconv"
	"testing"

	"pgregory.net/rapid"

	"verif/gen"
)

const demoSpokfile = "# This is a spokfile example\n\nVERSION := \"0.3.0\"\n\n# Run the unit tests\ntask test(\"**/*.go\") {\n    go test ./...\n}\n\n# Which version am I\ntask version() {\n    echo {{.VERSION}}\n}\n"

// fuzzSeeds: the repository's own spokfile, the --init demo, every string literal of the
// lexer and parser test files (their `input:` cases) — unless VERIF_FUZZ_EMPTY=1.
func fuzzSeeds() [][]byte {
	if os.Getenv("VERIF_FUZZ_EMPTY") == "1" {
		return [][]byte{[]byte("")}
	}
	repo := os.Getenv("VERIF_REPO")
	if repo == "" {
		repo = "/repo"
	}
	out := [][]byte{[]byte(demoSpokfile), []byte("task t(\"a\", b) -> (\"c\", D) {\n\techo {{.X}}\n}\n"), []byte("#\n# a\ntasky := join(\"a\", \"b\")\n"), []byte("A(\"(Line 0)0"), []byte("X := \"\n\n3 |\t(Line 3)\nY")}
	if b, err := os.ReadFile(filepath.Join(repo, "spokfile")); err == nil {
		out = append(out, b)
	}
	for _, f := range []string{"lexer/lexer_test.go", "parser/parser_test.go"} {
		fset := token.NewFileSet()
		file, err := parser.ParseFile(fset, filepath.Join(repo, f), nil, 0)
		if err != nil {
			continue
		}
		ast.Inspect(file, func(n ast.Node) bool {
			if lit, ok := n.(*ast.BasicLit); ok && lit.Kind == token.STRING {
				if v, err := strconv.Unquote(lit.Value); err == nil && len(v) > 3 && len(v) < 2000 {
					out = append(out, []byte(v))
				}
			}
			return true
		})
	}
	return out
}

// FuzzInput: coverage-guided byte-level fuzzing with the property's oracle inside the target.
func FuzzInput(f *testing.F) {
	for _, s := range fuzzSeeds() {
		f.Add(s)
	}
	f.Fuzz(func(t *testing.T, data []byte) {
		if fail := checkInput(id(), nil, string(data)); fail != nil {
			t.Fatalf("%s [%s]", fail.Msg, fail.Sig)
		}
	})
}

// FuzzSoup: the permissive grammar generator driven by the fuzzer's byte stream.
func FuzzSoup(f *testing.F) {
	f.Fuzz(rapid.MakeFuzz(func(t *rapid.T) {
		x := gen.Soup(t)
		if fail := checkInput(id(), nil, x); fail != nil {
			t.Fatalf("%s [%s]", fail.Msg, fail.Sig)
		}
	}))
}
