// Package syntax is engine E1: the lexer / parser / formatter properties
// C06 C07 C08 C11 C15 C16, decided over shared generated input spaces.
package syntax

import (
	"encoding/base64"
	"encoding/json"
	"fmt"
	"regexp"
	"strconv"
	"strings"
	"unicode"
	"unicode/utf8"

	"github.com/FollowTheProcess/spok/ast"
	"github.com/FollowTheProcess/spok/lexer"
	"github.com/FollowTheProcess/spok/parser"
	"github.com/FollowTheProcess/spok/token"

	"verif/ev"
	"verif/gen"
	"verif/rp"
)

// InputCase is a replayable raw input (base64 because inputs need not be UTF-8).
type InputCase struct {
	B64  string `json:"input_b64"`
	Text string `json:"input_text"` // for the reader only
}

func mkInput(x string) InputCase {
	return InputCase{B64: base64.StdEncoding.EncodeToString([]byte(x)), Text: strconv.QuoteToASCII(x)}
}

// repMagic marks an input that is given as "prefix + symbol repeated n times" instead of byte for byte
// (inputs of several megabytes do not fit the progress area and make unwieldy replay files).
const repMagic = "\x01repeat:"

func repeatedInput(pre, sym string, n int) InputCase {
	spec, _ := json.Marshal(map[string]any{"pre": pre, "sym": sym, "n": n})
	return InputCase{B64: base64.StdEncoding.EncodeToString([]byte(repMagic + string(spec))), Text: fmt.Sprintf("%q followed by %q x %d", pre, sym, n)}
}

func expandRepeated(raw string) string {
	if !strings.HasPrefix(raw, repMagic) {
		return raw
	}
	var spec struct {
		Pre, Sym string
		N        int
	}
	if json.Unmarshal([]byte(strings.TrimPrefix(raw, repMagic)), &spec) != nil {
		return raw
	}
	return spec.Pre + strings.Repeat(spec.Sym, spec.N)
}

func (c InputCase) input() string {
	b, _ := base64.StdEncoding.DecodeString(c.B64)
	return expandRepeated(string(b))
}

// payload is what is published as the case in flight: the compact form when there is one.
func (c InputCase) payload() []byte {
	b, _ := base64.StdEncoding.DecodeString(c.B64)
	return b
}

// parse runs the real parser; a panic on the calling goroutine is reported as such.
func parse(x string) (tree ast.Tree, err error, panicked any) {
	defer func() {
		if r := recover(); r != nil {
			panicked = r
		}
	}()
	tree, err = parser.New(x).Parse()
	return
}

func format(tree ast.Tree) (out string, panicked any) {
	defer func() {
		if r := recover(); r != nil {
			panicked = r
		}
	}()
	return tree.String(), nil
}

// lexAll reads tokens up to and including the first EOF or ERROR token, or until limit.
func lexAll(x string, limit int) (toks []token.Token, overflow bool) {
	l := lexer.New(x)
	for {
		t := l.NextToken()
		toks = append(toks, t)
		if t.Type == token.EOF || t.Type == token.ERROR {
			return toks, false
		}
		if len(toks) > limit {
			return toks, true
		}
	}
}

// ---- C16 ---------------------------------------------------------------------------

func checkC16(s *ev.Shard, x string) *rp.Fail {
	limit := 4*len(x) + 16
	toks, overflow := lexAll(x, limit)
	if overflow {
		return &rp.Fail{Sig: "token-stream-unbounded", Msg: fmt.Sprintf("more than %d tokens before EOF/ERROR for a %d-byte input", limit, len(x)), Size: len(x)}
	}
	end := 0
	multi := false
	for i, t := range toks {
		if t.Type == token.ERROR {
			break // the error token's value is a message, not input text
		}
		if t.Pos < 0 || t.Pos+len(t.Value) > len(x) {
			return &rp.Fail{Sig: "offset-out-of-range", Msg: fmt.Sprintf("token %d %v: offset %d + len %d outside input of %d bytes", i, t.Type, t.Pos, len(t.Value), len(x)), Size: len(x)}
		}
		if x[t.Pos:t.Pos+len(t.Value)] != t.Value {
			return &rp.Fail{Sig: "value-not-slice", Msg: fmt.Sprintf("token %d %v: value %q is not the input slice at offset %d (%q)", i, t.Type, t.Value, t.Pos, x[t.Pos:t.Pos+len(t.Value)]), Size: len(x)}
		}
		if t.Pos < end {
			return &rp.Fail{Sig: "overlap", Msg: fmt.Sprintf("token %d %v at offset %d overlaps the previous token ending at %d", i, t.Type, t.Pos, end), Size: len(x)}
		}
		for _, r := range x[end:t.Pos] {
			if !unicode.IsSpace(r) {
				return &rp.Fail{Sig: "gap-not-whitespace", Msg: fmt.Sprintf("non-whitespace %q between offset %d and token %d %v at %d", x[end:t.Pos], end, i, t.Type, t.Pos), Size: len(x)}
			}
		}
		if want := 1 + strings.Count(x[:t.Pos], "\n"); t.Line != want {
			return &rp.Fail{Sig: "line-number", Msg: fmt.Sprintf("token %d %v %q at offset %d has line %d, want %d", i, t.Type, t.Value, t.Pos, t.Line, want), Size: len(x)}
		}
		end = t.Pos + len(t.Value)
		if t.Type == token.EOF {
			if t.Pos != len(x) {
				return &rp.Fail{Sig: "eof-position", Msg: fmt.Sprintf("EOF token at offset %d, input has %d bytes", t.Pos, len(x)), Size: len(x)}
			}
		} else if !multi && (strings.Contains(x[:end], "\n") || !isASCII(x[:end])) {
			multi = true
		}
	}
	if s != nil {
		last := toks[len(toks)-1]
		s.Class("end:" + last.Type.String())
		if len(toks) >= 3 && multi {
			s.NonTrivial(x)
		}
	}
	return nil
}

func isASCII(s string) bool {
	for i := 0; i < len(s); i++ {
		if s[i] >= utf8.RuneSelf {
			return false
		}
	}
	return true
}

// ---- C07 / C11 / C15 ---------------------------------------------------------------

// fmtInfo holds what the three formatter properties share for one input.
type fmtInfo struct {
	tree1 ast.Tree
	f1    string
	tree2 ast.Tree
	err2  error
}

func checkFormatter(id string, s *ev.Shard, x string) *rp.Fail {
	tree1, err, pan := parse(x)
	if pan != nil {
		if s != nil {
			s.Class("blocked_by_C08_panic")
		}
		return nil
	}
	if err != nil {
		if s != nil {
			s.Class("input_rejected")
		}
		return nil
	}
	if s != nil {
		s.Class("input_parses")
	}
	f1, pan := format(tree1)
	if pan != nil {
		if id == "C07" {
			return &rp.Fail{Sig: "formatter-panic", Msg: fmt.Sprintf("formatting the tree of %q panicked: %v", x, pan), Size: len(x)}
		}
		return nil
	}
	tree2, err2, pan2 := parse(f1)
	p1 := gen.Project(tree1)
	switch id {
	case "C07":
		if pan2 != nil {
			return &rp.Fail{Sig: "formatted-output-panics", Msg: fmt.Sprintf("input %q parses, its formatted text %q makes the parser panic: %v", x, f1, pan2), Size: len(x)}
		}
		if err2 != nil {
			return &rp.Fail{Sig: "formatted-output-rejected", Msg: fmt.Sprintf("input %q parses, its formatted text %q does not: %v", x, f1, err2), Size: len(x)}
		}
		if d := gen.Diff(gen.Semantic(gen.Project(tree2)), gen.Semantic(p1)); d != "" {
			return &rp.Fail{Sig: "formatting-changes-meaning", Msg: fmt.Sprintf("input %q and its formatted text %q define different things: %s", x, f1, d), Size: len(x)}
		}
		if s != nil && len(tree1.Nodes) >= 1 {
			s.NonTrivial(f1)
		}
	case "C11":
		if pan2 != nil || err2 != nil {
			// format(format(x)) does not even exist: the fixed point is not reached (also C07's finding)
			return &rp.Fail{Sig: "formatted-text-does-not-parse", Msg: fmt.Sprintf("input %q parses; format(x) = %q cannot be formatted again: %v %v", x, f1, err2, pan2), Size: len(x)}
		}
		f2, pan := format(tree2)
		if pan != nil {
			return nil
		}
		if f2 != f1 {
			return &rp.Fail{Sig: "not-idempotent", Msg: fmt.Sprintf("input %q: format(x) = %q but format(format(x)) = %q", x, f1, f2), Size: len(x)}
		}
		if s != nil && f1 != x {
			s.NonTrivial(f1)
		}
	case "C15":
		if pan2 != nil || err2 != nil {
			if s != nil {
				s.Class("blocked_by_C07")
			}
			return nil
		}
		c1, c2 := gen.Comments(p1), gen.Comments(gen.Project(tree2))
		if strings.Join(c1, "\x00") != strings.Join(c2, "\x00") {
			return &rp.Fail{Sig: "comments-changed", Msg: fmt.Sprintf("input %q has comments/docstrings %q, its formatted text %q has %q", x, c1, f1, c2), Size: len(x)}
		}
		if s != nil {
			hasC, hasT := false, false
			for _, e := range c1 {
				if strings.HasPrefix(e, "C:") || (strings.HasPrefix(e, "T:") && !strings.HasSuffix(e, ":")) {
					hasC = true
				}
				if strings.HasPrefix(e, "T:") {
					hasT = true
				}
			}
			if hasC && hasT {
				s.NonTrivial(strings.Join(c1, "\x00") + "\x01" + f1)
			}
		}
	}
	return nil
}

// ---- C08 ---------------------------------------------------------------------------

var sepRe = regexp.MustCompile(`\n\n(-?\d+) \|[ \t]?`)

// checkErrText verifies the "located error" clause for one error message. Both error types
// of the code base print "<message> (Line N)...", a blank line, then "N |<tab><line N>". The
// message part holds text of one input line only, so the first blank line followed by
// "N |" is the separator — text such as "(Line 0)" inside the user's own string cannot be
// mistaken for the citation (a mistake this oracle made until the fuzzer found it: K9).
func checkErrText(x, msg string) *rp.Fail {
	loc := sepRe.FindStringSubmatchIndex(msg)
	if loc == nil {
		if !strings.Contains(msg, "(Line ") {
			return &rp.Fail{Sig: "error-without-line", Msg: fmt.Sprintf("input %q: syntax error cites no line: %q", x, msg), Size: len(x)}
		}
		return &rp.Fail{Sig: "error-without-quoted-line", Msg: fmt.Sprintf("input %q: syntax error does not quote a line: %q", x, msg), Size: len(x)}
	}
	n, _ := strconv.Atoi(msg[loc[2]:loc[3]])
	head, context := msg[:loc[0]], msg[loc[1]:]
	if !strings.Contains(head, fmt.Sprintf("(Line %d)", n)) {
		if !strings.Contains(head, "(Line ") {
			return &rp.Fail{Sig: "error-without-line", Msg: fmt.Sprintf("input %q: syntax error cites no line: %q", x, msg), Size: len(x)}
		}
		return &rp.Fail{Sig: "error-quotes-wrong-line", Msg: fmt.Sprintf("input %q: the line number in front of the quoted line (%d) is not the one cited in the message: %q", x, n, msg), Size: len(x)}
	}
	lines := strings.Split(x, "\n")
	if n < 1 || n > len(lines) {
		return &rp.Fail{Sig: "error-line-out-of-range", Msg: fmt.Sprintf("input %q (%d lines): syntax error cites line %d: %q", x, len(lines), n, msg), Size: len(x)}
	}
	want := strings.TrimSpace(lines[n-1])
	if strings.TrimSpace(context) != want {
		return &rp.Fail{Sig: "error-quotes-wrong-line", Msg: fmt.Sprintf("input %q: syntax error cites line %d but quotes %q instead of that line (%q): %q", x, n, strings.TrimSpace(context), want, msg), Size: len(x)}
	}
	return nil
}

func checkC08(s *ev.Shard, x string) *rp.Fail {
	tree1, err1, pan1 := parse(x)
	if pan1 != nil {
		return &rp.Fail{Sig: "parser-panic", Msg: fmt.Sprintf("parsing %q panicked: %v", x, pan1), Size: len(x)}
	}
	tree2, err2, pan2 := parse(x)
	if pan2 != nil {
		return &rp.Fail{Sig: "parser-panic", Msg: fmt.Sprintf("parsing %q panicked (second parse): %v", x, pan2), Size: len(x)}
	}
	f1, fp1 := format(tree1)
	f2, fp2 := format(tree2)
	if fp1 != nil || fp2 != nil {
		return &rp.Fail{Sig: "tree-print-panic", Msg: fmt.Sprintf("printing the tree of %q panicked: %v %v", x, fp1, fp2), Size: len(x)}
	}
	e1, e2 := "", ""
	if err1 != nil {
		e1 = err1.Error()
	}
	if err2 != nil {
		e2 = err2.Error()
	}
	if (err1 == nil) != (err2 == nil) || e1 != e2 || f1 != f2 {
		return &rp.Fail{Sig: "nondeterministic", Msg: fmt.Sprintf("two parses of %q differ: (%q, %q) vs (%q, %q)", x, f1, e1, f2, e2), Size: len(x)}
	}
	if err1 != nil {
		if f := checkErrText(x, e1); f != nil {
			return f
		}
	}
	// lexing on its own must terminate too: the parser may stop pulling tokens at its own
	// error, a direct client of the lexer reads on up to the first EOF / ERROR token
	toks, overflow := lexAll(x, 4*len(x)+16)
	if overflow {
		return &rp.Fail{Sig: "token-stream-unbounded", Msg: fmt.Sprintf("lexing %q yields more than %d tokens without EOF or ERROR", x, 4*len(x)+16), Size: len(x)}
	}
	if last := toks[len(toks)-1]; last.Type == token.ERROR && err1 != nil {
		if f := checkErrText(x, last.Value); f != nil {
			return f
		}
	}
	if s != nil {
		if err1 != nil {
			s.Class("rejected")
		} else {
			s.Class("accepted")
		}
		if len(toks) >= 3 {
			s.NonTrivial(x)
		}
	}
	return nil
}

// checkInput dispatches on the property id.
func checkInput(id string, s *ev.Shard, x string) *rp.Fail {
	switch id {
	case "C16":
		return checkC16(s, x)
	case "C08":
		return checkC08(s, x)
	case "C07", "C11", "C15":
		return checkFormatter(id, s, x)
	}
	return nil
}
