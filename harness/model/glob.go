// Package model holds the reference models the oracles compare spok against. They are
// deliberately naive and share no code with spok.
package model

import (
	"fmt"
	"io/fs"
	"os"
	"path/filepath"
	"sort"
	"strings"
)

// expandBraces expands {a,b} alternations (no nesting needed for the generated patterns,
// but nesting is handled by recursion anyway).
func expandBraces(p string) []string {
	open := strings.IndexByte(p, '{')
	if open < 0 {
		return []string{p}
	}
	depth := 0
	for i := open; i < len(p); i++ {
		switch p[i] {
		case '{':
			depth++
		case '}':
			depth--
			if depth == 0 {
				var out []string
				// split the body on top-level commas
				body := p[open+1 : i]
				var parts []string
				d, last := 0, 0
				for j := 0; j < len(body); j++ {
					switch body[j] {
					case '{':
						d++
					case '}':
						d--
					case ',':
						if d == 0 {
							parts = append(parts, body[last:j])
							last = j + 1
						}
					}
				}
				parts = append(parts, body[last:])
				for _, alt := range parts {
					out = append(out, expandBraces(p[:open]+alt+p[i+1:])...)
				}
				return out
			}
		}
	}
	return []string{p}
}

// segMatch matches one path segment against one pattern segment: '*', '?', '\\x' (the
// character x itself) and character classes '[abc]', '[a-z]', '[!a]' / '[^a]'.
func segMatch(pat, s string) bool {
	if pat == "" {
		return s == ""
	}
	switch pat[0] {
	case '*':
		for i := 0; i <= len(s); i++ {
			if segMatch(pat[1:], s[i:]) {
				return true
			}
		}
		return false
	case '?':
		return s != "" && segMatch(pat[1:], s[1:])
	case '\\':
		if len(pat) < 2 {
			return false
		}
		return s != "" && s[0] == pat[1] && segMatch(pat[2:], s[1:])
	case '[':
		end := -1
		for i := 1; i < len(pat); i++ {
			if pat[i] == '\\' {
				i++
				continue
			}
			if pat[i] == ']' && i > 1 {
				end = i
				break
			}
		}
		if end < 0 || s == "" {
			return false
		}
		body := pat[1:end]
		neg := false
		if body != "" && (body[0] == '!' || body[0] == '^') {
			neg, body = true, body[1:]
		}
		in := false
		for i := 0; i < len(body); i++ {
			lo := body[i]
			if lo == '\\' && i+1 < len(body) {
				i++
				lo = body[i]
			}
			hi := lo
			if i+2 < len(body) && body[i+1] == '-' {
				hi = body[i+2]
				i += 2
			}
			if s[0] >= lo && s[0] <= hi {
				in = true
			}
		}
		return in != neg && segMatch(pat[end+1:], s[1:])
	default:
		return s != "" && s[0] == pat[0] && segMatch(pat[1:], s[1:])
	}
}

func segsMatch(pat, path []string) bool {
	if len(pat) == 0 {
		return len(path) == 0
	}
	if pat[0] == "**" {
		for i := 0; i <= len(path); i++ {
			if segsMatch(pat[1:], path[i:]) {
				return true
			}
		}
		return false
	}
	return len(path) > 0 && segMatch(pat[0], path[0]) && segsMatch(pat[1:], path[1:])
}

// Match reports whether the slash-separated relative path matches the glob pattern:
// '*' and '?' within a segment, '**' as a whole segment for any number of directories,
// {a,b} alternation.
func Match(pattern, rel string) bool {
	for _, p := range expandBraces(pattern) {
		if segsMatch(strings.Split(p, "/"), strings.Split(rel, "/")) {
			return true
		}
	}
	return false
}

// Entry is one entry of a directory walk.
type Entry struct {
	Rel   string
	IsDir bool
}

// Walk lists every entry below root (relative, slash-separated). A symbolic link to a directory
// is a directory (its contents are listed below the link's own path, as a path-based reader sees
// them); a link to a file, or one that leads nowhere, is a non-directory entry. Trees handed to
// Walk must not contain links that lead back up the tree (depth is capped as a safety net).
func Walk(root string) ([]Entry, error) {
	var out []Entry
	var walk func(dir, rel string, depth int) error
	walk = func(dir, rel string, depth int) error {
		if depth > 24 {
			return fmt.Errorf("model.Walk: directory nesting deeper than 24 below %s (link cycle?)", root)
		}
		list, err := os.ReadDir(dir)
		if err != nil {
			if os.IsPermission(err) && rel != "" {
				return nil // a directory this user may not list shows no content
			}
			return err
		}
		for _, d := range list {
			r := d.Name()
			if rel != "" {
				r = rel + "/" + d.Name()
			}
			p := filepath.Join(dir, d.Name())
			isDir := d.IsDir()
			if d.Type()&fs.ModeSymlink != 0 {
				if st, err := os.Stat(p); err == nil && st.IsDir() {
					isDir = true
				}
			}
			out = append(out, Entry{Rel: r, IsDir: isDir})
			if isDir {
				if err := walk(p, r, depth+1); err != nil {
					return err
				}
			}
		}
		return nil
	}
	err := walk(root, "", 0)
	return out, err
}

// WalkNoFollow lists every entry below root without following links: a link is a
// non-directory entry whatever it points at.
func WalkNoFollow(root string) ([]Entry, error) {
	var out []Entry
	err := filepath.WalkDir(root, func(path string, d fs.DirEntry, err error) error {
		if err != nil {
			return err
		}
		rel, err := filepath.Rel(root, path)
		if err != nil {
			return err
		}
		if rel == "." {
			return nil
		}
		out = append(out, Entry{Rel: filepath.ToSlash(rel), IsDir: d.IsDir()})
		return nil
	})
	return out, err
}

// GlobFiles is the reference expansion of a glob: the regular (non-directory) entries
// under root whose relative path matches, leaving out paths that begin with a dot.
func GlobFiles(entries []Entry, pattern string) []string {
	var out []string
	for _, e := range entries {
		if e.IsDir || strings.HasPrefix(e.Rel, ".") {
			continue
		}
		if Match(pattern, e.Rel) {
			out = append(out, e.Rel)
		}
	}
	sort.Strings(out)
	return out
}

// ReadAll returns path -> content for the given relative files (missing files are left out).
func ReadAll(root string, rels []string) map[string]string {
	out := map[string]string{}
	for _, r := range rels {
		if b, err := os.ReadFile(filepath.Join(root, filepath.FromSlash(r))); err == nil {
			out[r] = string(b)
		}
	}
	return out
}
